#!/venv/bin/python
"""Audit aid: which executable lines of corankco did the checks never run?
usage: VERIF_LINECOV=/verif/.work/linecov tools/run_all.sh 1 quick ; tools/linecov.py /verif/.work/linecov
Lines inside numba-compiled functions are reported as never run (the tracer cannot see them): they are listed apart."""
import glob, json, os, sys, ast
d = sys.argv[1]
root = os.path.realpath(os.path.join(os.environ.get("VERIF_REPO", "/repo"), "corankco"))
seen = set()
for f in glob.glob(os.path.join(d, "cov_*.json")):
    seen.update(tuple(x) for x in json.load(open(f)))


def code_lines(path):
    src = open(path).read()
    out = set()

    def walk(co):
        for _, _, ln in co.co_lines():
            if ln:
                out.add(ln)
        for c in co.co_consts:
            if hasattr(c, "co_lines"):
                walk(c)
    walk(compile(src, path, "exec"))
    # docstring-only and def lines count as executed at import; jitted functions are found through their decorator
    jit = set()
    for node in ast.walk(ast.parse(src)):
        if isinstance(node, ast.FunctionDef) and any("jit" in ast.unparse(dc) for dc in node.decorator_list):
            jit.update(range(node.lineno, node.end_lineno + 1))
    return out, jit, src.splitlines()


tot = miss = 0
for path in sorted(glob.glob(os.path.join(root, "**", "*.py"), recursive=True)):
    rel = os.path.relpath(path, root)
    if rel.startswith(("tests", "experiments")) or "/tests/" in rel:
        continue
    lines, jit, src = code_lines(path)
    if os.environ.get("VERIF_LINECOV_JIT"):
        jit = set()
    missing = sorted(l for l in lines if (rel, l) not in seen and l not in jit)
    tot += len(lines - jit)
    miss += len(missing)
    if missing:
        print("== %s: %d of %d executable lines never run" % (rel, len(missing), len(lines - jit)))
        for l in missing:
            print("   %4d  %s" % (l, src[l - 1].rstrip()[:110]))
print("TOTAL: %d of %d executable (non-jitted) lines never run" % (miss, tot))
