#!/usr/bin/env python3
# Stores a confirmed seeded change under seeded/<name>/ (see DESIGN.md section 11).
# usage: tools/seed_keep.py <Cxx> <name> <source SEED dir> <file changed> <what> <needs> <caught-by "Cxx tier: sub-check"> <first evaluation>
import json, os, shutil, sys
pid, name, src, fchanged, what, needs, caught, first = sys.argv[1:9]
dst = os.path.join(os.path.dirname(os.path.dirname(os.path.abspath(__file__))), "seeded", name)
os.makedirs(dst, exist_ok=True)
shutil.copy(os.path.join(src, "patch.diff"), os.path.join(dst, "patch.diff"))
shutil.copy(os.path.join(src, "demo.py"), os.path.join(dst, "demo.py"))
shutil.copy(os.path.join(src, "notes.md"), os.path.join(dst, "author_notes.md"))
k, v = caught.split(":", 1)
meta = {"property": pid, "file": fchanged, "what": what, "needs": needs, "caught_by": {k.strip(): v.strip()},
        "first_evaluation": first,
        "ran": ["tools/seed_eval.sh: fresh scratch worktree of /repo under /tmp; author's demo exits 0 on the unchanged "
                "tree; patch applied; 52 tests pass; demo exits 1; listed checks run with VERIF_REPO=<worktree>; "
                "worktree removed"]}
json.dump(meta, open(os.path.join(dst, "meta.json"), "w"), indent=1)
print("kept", dst)
