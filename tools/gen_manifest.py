#!/usr/bin/env python3
"""Regenerates MANIFEST.json from the table below (only checks whose module exists are claimed)."""
import json
import os

VERIF = os.path.dirname(os.path.dirname(os.path.abspath(__file__)))

CHECKS = {
    "C01": dict(
        technique="property-based testing (Hypothesis) + exhaustive small-scope enumeration against an exact reference score",
        text="Generated (scheme, dataset, candidate) triples are scored by the library and by an independent exact-"
             "arithmetic transcription of the definition; all datasets with n<=3 (thorough: n<=4) are enumerated "
             "exhaustively under a scheme that decodes every count term. Exploration: shows absence of "
             "counter-examples in the explored domain, not for all inputs.",
        note="Trusted: vlib/oracle.py (two independent transcriptions cross-checked), Hypothesis. weights/repetitions "
             "constructor arguments are ignored by the library and not exercised.",
        design="6/C01"),
    "C02": dict(
        technique="property-based testing (Hypothesis) + exhaustive small-scope enumeration against per-pair reference costs",
        text="Every entry of the pairwise cost table is compared with the per-pair definition in exact arithmetic on "
             "generated (scheme, dataset) cases and on all datasets with n<=3 (thorough n<=4); mirror consistency and "
             "positions==bucket-ids are bit-exact; entries selected by generated candidates are summed and compared "
             "with the reference and library scores. Exploration of the input space, not a proof.",
        note="Trusted: vlib/oracle.py, Hypothesis; element ids resolved through dataset.mapping_elem_id (validated as a "
             "bijection in the check, full consistency is C16's).",
        design="6/C02"),
    "C03": dict(
        technique="property-based testing (Hypothesis) of a validity predicate over every algorithm configuration",
        text="31 algorithm configurations (incl. nested starters/auxiliaries, get_algorithm defaults, both solver "
             "back-ends) x generated schemes/datasets/flags/RNG seeds; the consensus must be well-formed over exactly "
             "the universe; documented refusals are 'not accepted', any other exception is a violation.",
        note="CPLEX code paths run against a stand-in exact 0-1 ILP solver (real CPLEX unavailable offline).",
        design="6/C03"),
    "C04": dict(
        technique="property-based testing (Hypothesis): reported score vs exact reference score of every returned ranking",
        text="Same configuration space as C03 with extra weight on algorithms that supply their own score (BioConsert "
             "bookkeeping, solver objective, PickAPerm minimum) and on empty/zero ILP objectives; reported score must be "
             "a real number within 1e-6 of the exact score of each returned ranking.",
        note="Trusted: vlib/oracle.py; stand-in solver for CPLEX paths.",
        design="6/C04"),
    "C05": dict(
        technique="differential property-based testing (Hypothesis) against an independent exact optimiser (subset DP)",
        text="Exact configurations with CPLEX absent (must answer through the free solver) and with the CPLEX API "
             "present (stand-in) on generated instances incl. Condorcet-like cycles and rankings missing a whole "
             "component; returned score must equal the DP optimum, and the set returned when all optima are requested "
             "must equal the DP's set of minimisers. Decided up to n<=9 (PuLP) / n<=6 (stand-in).",
        note="Trusted: oracle DP (cross-checked against brute force in every worker), stand-in ILP solver (self-tested "
             "against brute force); says nothing about real CPLEX numerics.",
        design="6/C05"),
    "C06": dict(
        technique="differential property-based testing (Hypothesis) against per-group subset DP; recording-proxy auxiliary",
        text="parcons_partition is checked to be a partition whose best consistent ranking (per-group DP under the full "
             "instance's costs) reaches the global DP optimum; ParCons over a grid of exact bounds x auxiliaries "
             "(wrapped in a recording proxy) x solver environments must respect and report that partition, and flag "
             "'necessarily optimal' exactly when the proxy was never called; every configuration that sets the flag is "
             "compared with the DP optimum.",
        note="Trusted: oracle DP, own SCC routine only for labels (the library's partition is validated through the "
             "DP, not compared with the oracle's); stand-in solver for CPLEX paths.",
        design="6/C06"),
    "C07": dict(
        technique="property-based testing (Hypothesis) against the enumerated set of ALL optimal consensuses; reference predicate for consistent_with",
        text="For generated instances (n<=6, thorough 7) every optimal consensus is enumerated by DP back-tracking and "
             "must respect the ParFront partition, which must merge consecutive ParCons groups in order; "
             "consistent_with is compared with a reference predicate on generated (partition, consensus) pairs incl. "
             "near misses and foreign universes.",
        note="Dyadic penalties only (exact ties); instances with >3000 optima skipped and counted.",
        design="6/C07"),
    "C08": dict(
        technique="property-based testing (Hypothesis): exhaustive re-scoring of every single-element move of every returned ranking",
        text="Every BioConsert configuration (default, BioCo, starters) on generated instances; each returned ranking is "
             "checked against all single-element moves (join another bucket / new bucket at any position) with exact "
             "score deltas from the oracle's pair costs; improvement beyond the 0.001 threshold is a violation.",
        note="Trusted: oracle pair costs. Local optimality is with respect to the moves named in the statement.",
        design="6/C08"),
    "C09": dict(
        technique="property-based testing (Hypothesis) with recording-proxy starters",
        text="BioConsert with no starters / starter lists wrapped in recording proxies: exact score of the result is "
             "compared with every completed input ranking and the all-tied ranking, or with each consensus a starter "
             "actually returned; all returned rankings must share the score; BioCo<=Borda and BioConsert<=PickAPerm run "
             "directly.",
        note="Trusted: oracle scores; KwikSort starter seeded by a Hypothesis-drawn integer.",
        design="6/C09"),
    "C10": dict(
        technique="property-based testing (Hypothesis) against a reference set of minimal candidates",
        text="PickAPerm on complete datasets with any dyadic scheme and incomplete datasets with unifying multiples / "
             "near-unifying / other schemes: returned rankings must be (completed) input rankings of minimal exact "
             "score, all distinct minimal ones when requested, exactly one otherwise; non-unifying scheme on "
             "incomplete data must be refused with a corankco exception.",
        note="Dyadic penalties only (exact ties).",
        design="6/C10"),
    "C11": dict(
        technique="exhaustive enumeration of pivot schedules (checker-owned RNG) + property-based testing (Hypothesis)",
        text="The pivot chooser is rebound so that the checker owns the schedule; all pivot sequences are enumerated "
             "for n<=5 (thorough 6) and sampled above; coherent cheapest-placement relations must give the induced "
             "ranking for every schedule, identical rankings must be returned unchanged, and every element must sit "
             "relative to the pivot of its recursion step as the reference placement says.",
        note="Dyadic penalties only; falls back to sampled schedules (reported in evidence) if the chooser is no "
             "longer consulted.",
        design="6/C11"),
    "C12": dict(
        technique="property-based testing (Hypothesis): reference model in exact rationals + metamorphic relations",
        text="Both Borda variants on the four accepted scheme families and their dyadic multiples: consensus must equal "
             "the grouping by exact mean positional score (unifying: missing as last bucket; induced: skipped); "
             "invariance under permuting rankings and renaming elements; other schemes on incomplete data must raise "
             "ScoringSchemeNotHandledException.",
        note="Family membership decided by exact proportionality on all 12 penalties.",
        design="6/C12"),
    "C13": dict(
        technique="property-based testing (Hypothesis) against reference victories/equalities from exact pair costs",
        text="Copeland's consensus, per-element scores and victory/equality/defeat triples are compared with the "
             "reference computed from exact pair costs; counts sum to n-1, scores to n(n-1)/2, dictionaries keyed by "
             "exactly the universe.",
        note="Dyadic penalties only.",
        design="6/C13"),
    "C14": dict(
        technique="property-based testing (Hypothesis) over configurations x schemes x complete/incomplete datasets",
        text="For every configuration (incl. nested starters/auxiliaries) the relevance predicate must return a bool; "
             "True implies a well-formed consensus on incomplete data; complete data is never refused; for Borda, "
             "PickAPerm and BioConsert started from them refusal <=> predicate False.",
        note="IncompatibleArgumentsException (optimize=True with all rankings requested) is a documented usage error.",
        design="6/C14"),
    "C15": dict(
        technique="stateful property-based testing (Hypothesis RuleBasedStateMachine): deep-snapshot invariant + fresh-copy differential",
        text="Histories of algorithm runs, score/description reads, partition computations, candidate scoring, dataset "
             "views and scheme operations on shared objects; after every step the deep snapshot of dataset and scheme "
             "must equal the initial one and each result must equal the same call on fresh copies; non-KwikSort "
             "configurations called twice must agree.",
        note="KwikSort made repeatable by seeding; stand-in solver for CPLEX paths.",
        design="6/C15"),
    "C16": dict(
        technique="stateful property-based testing (Hypothesis RuleBasedStateMachine) against a reference model of the dataset",
        text="Histories of remove_elements / presence-rate filtering / remove_empty_rankings and derive-and-continue "
             "(unification, projections by elements and by ids) with a reference model; after every step all "
             "cross-view invariants (universe, both id maps, types, flags, matrices) and model equality are checked; "
             "every Ranking source is checked for positions/domain/size/length agreement.",
        note="Ambiguous integer-like names ('-5', '1_0') are not generated; empty rankings ignored after "
             "remove_elements (unspecified).",
        design="6/C16"),
    "C17": dict(
        technique="property-based testing (Hypothesis): pairs equal by construction / near misses / independent, 16 hash seeds",
        text="Dataset equality is compared with multiset-of-rankings equality on the model for pairs built to be equal "
             "(permuted rankings, re-inserted bucket members incl. hash-colliding families, other names), near misses "
             "and independent pairs; reflexivity, symmetry, != and agreement with a Ranking.__eq__ matching.",
        note="One PYTHONHASHSEED per shard.",
        design="6/C17"),
    "C18": dict(
        technique="property-based testing (Hypothesis) + coverage-guided fuzzing (atheris/libFuzzer) with round-trip and totality oracles",
        text="Round trips of rankings (brace / bracket notation, padding, name prefix) and of datasets through files "
             "over the stated alphabet; arbitrary text / file content over the format alphabet must parse or raise "
             "ValueError (EmptyDatasetException for files) only; atheris drives the hand-written scanner with the same "
             "oracles inside the target; hangs caught by a C-level watchdog.",
        note="'No hang' is a bounded-time observation. libFuzzer pinning is approximate; saved inputs are the "
             "reproducible unit.",
        design="6/C18"),
    "C19": dict(
        technique="exhaustive enumeration of finite grids (3^12 tuples; pairs of the 2916 valid grid schemes) + property-based testing (Hypothesis)",
        text="Validation is decided for all 531441 twelve-tuples over {0,1,2} plus generated malformed shapes/types/"
             "negative values; scaling is checked exactly incl. score homogeneity; equivalence and its complete-"
             "rankings variant are compared with exact proportionality on grid pairs (all 8.5M in thorough) and "
             "generated pairs; nicknames follow.",
        note="Exhaustive inside the grid only; NaN/inf/bool penalties outside the statement.",
        design="6/C19"),
    "C20": dict(
        technique="property-based testing (Hypothesis) with the generators' RNG owned by the checker; per-step invariant",
        text="randint/shuffle used by the generators are rebound to a Hypothesis-drawn tape; every Markov move is "
             "wrapped to check the dense-numbering invariant after each step, and each move is also called directly on "
             "generated dense states; results are checked for shape, completeness, counts and the only documented "
             "failure.",
        note="n=0 / m=0 not generated (undocumented).",
        design="6/C20"),
}

SETUP = ("/venv/bin/python -c 'import hypothesis' 2>/dev/null || /venv/bin/pip install --no-index --find-links "
         "/opt/veriftools/wheels hypothesis; mkdir -p /verif/.deps /verif/.work; "
         "/venv/bin/pip install -q --no-index --find-links /opt/veriftools/wheels --target /verif/.deps atheris jsonschema "
         ">/dev/null 2>&1 || true; /venv/bin/python /verif/tools/warmup.py")


def main():
    with open(os.path.join(VERIF, "properties.jsonl")) as f:
        props = [json.loads(l) for l in f if l.strip()]
    checks, na = [], []
    for p in props:
        pid = p["id"]
        c = CHECKS.get(pid)
        if c and os.path.exists(os.path.join(VERIF, "checks", pid.lower() + ".py")):
            checks.append({
                "property_id": pid,
                "quick_cmd": "/venv/bin/python /verif/run_check.py %s --tier quick" % pid,
                "thorough_cmd": "/venv/bin/python /verif/run_check.py %s --tier thorough" % pid,
                "evidence_file": "/verif/evidence/%s.json" % pid,
                "replay_cmd_template": "/venv/bin/python /verif/run_check.py %s --replay {path}" % pid,
                "engine": "pbt",
                "level_claimed": {"category": c.get("category", "exploration"), "text": c["text"],
                                  "design_ref": "DESIGN.md section " + c["design"]},
                "level_note": c["note"],
                "technique": c["technique"],
            })
        else:
            na.append({"property_id": pid,
                       "reason": c["na"] if c and "na" in c else
                       "check not built yet (work in progress; the design in DESIGN.md section 6 applies the technique)"})
    man = {
        "version": 1,
        "setup_cmd": SETUP,
        "hooks": {
            "guard": "CORANKCO_VERIF",
            "enable": "no source hook is needed: checks import /repo's working tree directly (PYTHONPATH=/repo) and "
                      "rebind module-level names from outside; CORANKCO_VERIF=1 is exported by the runner for "
                      "completeness",
            "baseline_off_cmd": "cd /repo && /venv/bin/python -m pytest -ra -q -p no:cacheprovider --timeout=900 "
                                "--continue-on-collection-errors",
            "source_commits": [],
            "add_only": True,
        },
        "engines": [{"name": "pbt", "path": "/verif/run_check.py",
                     "serves_properties": [c["property_id"] for c in checks],
                     "kind_free_text": "Hypothesis property-based / stateful testing, exhaustive small-scope "
                                       "enumeration, atheris coverage-guided fuzzing; exact-arithmetic reference "
                                       "model in vlib/oracle.py; 16 sharded worker processes"}],
        "checks": checks,
        "not_applicable": na,
        "notes": "All checks: exit 0 held / 1 VIOLATION / 2 harness error. VERIF_SEED selects the seed; "
                 "VERIF_BUDGET_S overrides the per-shard time budget (budget reached = inconclusive remainder, "
                 "reported in evidence, never a violation).",
    }
    with open(os.path.join(VERIF, "MANIFEST.json"), "w") as f:
        json.dump(man, f, indent=1)
    print("claimed:", [c["property_id"] for c in checks])
    print("not claimed:", [x["property_id"] for x in na])


if __name__ == "__main__":
    main()
