#!/usr/bin/env python3
"""Regenerates MANIFEST.json from the table below (only checks whose module exists are claimed)."""
import json
import os

VERIF = os.path.dirname(os.path.dirname(os.path.abspath(__file__)))

CHECKS = {
    "C01": dict(
        technique="property-based testing (Hypothesis) + exhaustive small-scope enumeration against an exact reference score",
        text="Generated (scheme, dataset, candidate) triples are scored by the library and by an independent exact-"
             "arithmetic transcription of the definition; all datasets with n<=3 (thorough: n<=4) are enumerated "
             "exhaustively under a scheme that decodes every count term. Exploration: shows absence of "
             "counter-examples in the explored domain, not for all inputs.",
        note="Trusted: vlib/oracle.py (two independent transcriptions cross-checked), Hypothesis. weights/repetitions "
             "constructor arguments are ignored by the library and not exercised.",
        design="6/C01"),
    "C02": dict(
        technique="property-based testing (Hypothesis) + exhaustive small-scope enumeration against per-pair reference costs",
        text="Every entry of the pairwise cost table is compared with the per-pair definition in exact arithmetic on "
             "generated (scheme, dataset) cases and on all datasets with n<=3 (thorough n<=4); mirror consistency and "
             "positions==bucket-ids are bit-exact; entries selected by generated candidates are summed and compared "
             "with the reference and library scores. Exploration of the input space, not a proof.",
        note="Trusted: vlib/oracle.py, Hypothesis; element ids resolved through dataset.mapping_elem_id (validated as a "
             "bijection in the check, full consistency is C16's).",
        design="6/C02"),
    "C03": dict(
        technique="property-based testing (Hypothesis) of a validity predicate over every algorithm configuration",
        text="31 algorithm configurations (incl. nested starters/auxiliaries, get_algorithm defaults, both solver "
             "back-ends) x generated schemes/datasets/flags/RNG seeds; the consensus must be well-formed over exactly "
             "the universe; documented refusals are 'not accepted', any other exception is a violation.",
        note="CPLEX code paths run against a stand-in exact 0-1 ILP solver (real CPLEX unavailable offline).",
        design="6/C03"),
    "C04": dict(
        technique="property-based testing (Hypothesis): reported score vs exact reference score of every returned ranking",
        text="Same configuration space as C03 with extra weight on algorithms that supply their own score (BioConsert "
             "bookkeeping, solver objective, PickAPerm minimum) and on empty/zero ILP objectives; reported score must be "
             "a real number within 1e-6 of the exact score of each returned ranking.",
        note="Trusted: vlib/oracle.py; stand-in solver for CPLEX paths.",
        design="6/C04"),
    "C05": dict(
        technique="differential property-based testing (Hypothesis) against an independent exact optimiser (subset DP)",
        text="Exact configurations with CPLEX absent (must answer through the free solver) and with the CPLEX API "
             "present (stand-in) on generated instances incl. Condorcet-like cycles and rankings missing a whole "
             "component; returned score must equal the DP optimum, and the set returned when all optima are requested "
             "must equal the DP's set of minimisers. Decided up to n<=9 (PuLP) / n<=6 (stand-in).",
        note="Trusted: oracle DP (cross-checked against brute force in every worker), stand-in ILP solver (self-tested "
             "against brute force); says nothing about real CPLEX numerics.",
        design="6/C05"),
}

SETUP = ("/venv/bin/python -c 'import hypothesis' 2>/dev/null || /venv/bin/pip install --no-index --find-links "
         "/opt/veriftools/wheels hypothesis; mkdir -p /verif/.deps /verif/.work; "
         "/venv/bin/pip install -q --no-index --find-links /opt/veriftools/wheels --target /verif/.deps atheris jsonschema "
         ">/dev/null 2>&1 || true; /venv/bin/python /verif/tools/warmup.py")


def main():
    with open(os.path.join(VERIF, "properties.jsonl")) as f:
        props = [json.loads(l) for l in f if l.strip()]
    checks, na = [], []
    for p in props:
        pid = p["id"]
        c = CHECKS.get(pid)
        if c and os.path.exists(os.path.join(VERIF, "checks", pid.lower() + ".py")):
            checks.append({
                "property_id": pid,
                "quick_cmd": "/venv/bin/python /verif/run_check.py %s --tier quick" % pid,
                "thorough_cmd": "/venv/bin/python /verif/run_check.py %s --tier thorough" % pid,
                "evidence_file": "/verif/evidence/%s.json" % pid,
                "replay_cmd_template": "/venv/bin/python /verif/run_check.py %s --replay {path}" % pid,
                "engine": "pbt",
                "level_claimed": {"category": c.get("category", "exploration"), "text": c["text"],
                                  "design_ref": "DESIGN.md section " + c["design"]},
                "level_note": c["note"],
                "technique": c["technique"],
            })
        else:
            na.append({"property_id": pid,
                       "reason": c["na"] if c and "na" in c else
                       "check not built yet (work in progress; the design in DESIGN.md section 6 applies the technique)"})
    man = {
        "version": 1,
        "setup_cmd": SETUP,
        "hooks": {
            "guard": "CORANKCO_VERIF",
            "enable": "no source hook is needed: checks import /repo's working tree directly (PYTHONPATH=/repo) and "
                      "rebind module-level names from outside; CORANKCO_VERIF=1 is exported by the runner for "
                      "completeness",
            "baseline_off_cmd": "cd /repo && /venv/bin/python -m pytest -ra -q -p no:cacheprovider --timeout=900 "
                                "--continue-on-collection-errors",
            "source_commits": [],
            "add_only": True,
        },
        "engines": [{"name": "pbt", "path": "/verif/run_check.py",
                     "serves_properties": [c["property_id"] for c in checks],
                     "kind_free_text": "Hypothesis property-based / stateful testing, exhaustive small-scope "
                                       "enumeration, atheris coverage-guided fuzzing; exact-arithmetic reference "
                                       "model in vlib/oracle.py; 16 sharded worker processes"}],
        "checks": checks,
        "not_applicable": na,
        "notes": "All checks: exit 0 held / 1 VIOLATION / 2 harness error. VERIF_SEED selects the seed; "
                 "VERIF_BUDGET_S overrides the per-shard time budget (budget reached = inconclusive remainder, "
                 "reported in evidence, never a violation).",
    }
    with open(os.path.join(VERIF, "MANIFEST.json"), "w") as f:
        json.dump(man, f, indent=1)
    print("claimed:", [c["property_id"] for c in checks])
    print("not claimed:", [x["property_id"] for x in na])


if __name__ == "__main__":
    main()
