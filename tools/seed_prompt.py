# Generates the brief given to a sub-agent asked for a breaking change (see DESIGN.md section 11).
# usage: python3 tools/seed_prompt.py <Cxx> ["extra notes"]  (expects /tmp/prop_<Cxx>.txt = title, statement and quantifier of the property)
import sys
pid = sys.argv[1]
round2 = sys.argv[2] if len(sys.argv) > 2 else ""
prop = open('/tmp/prop_%s.txt' % pid).read()
print(f"""You are helping to evaluate a verification effort for the open-source Python library `corankco` (rank aggregation: generalized Kemeny score, exact ILP via PuLP/CPLEX, BioConsert local search, ParCons/ParFront partitioning, KwikSort, Borda, Copeland, PickAPerm).

Your own scratch git worktree of the library is at /tmp/seed_{pid} (a detached checkout; work ONLY there). Do NOT read, list or modify anything under /repo or /verif, and do not use the network (there is none). Python is /venv/bin/python; to import the library from your worktree always run with `PYTHONPATH=/tmp/seed_{pid}` (check with `PYTHONPATH=/tmp/seed_{pid} /venv/bin/python -c "import corankco; print(corankco.__file__)"` that it prints a path under /tmp/seed_{pid}). CPLEX is not installed (the library then uses PuLP/CBC). The existing test-suite runs with:
  cd /tmp/seed_{pid} && PYTHONPATH=/tmp/seed_{pid} /venv/bin/python -m pytest -q -p no:cacheprovider tests
(52 tests, about 10 s; note some kernels are numba-compiled, an infinite loop inside them cannot be interrupted, so avoid creating one).

Here is a semantic property the library is supposed to satisfy:

{prop}

TASK. Read the relevant source under /tmp/seed_{pid}/corankco, then make ONE small, realistic change to the library source (the kind of slip or over-eager refactoring/optimisation a maintainer could really commit) such that:
 1. the property above no longer holds (there is at least one input / configuration / sequence of calls on which it is violated);
 2. the code still imports and the existing 52 tests still pass, unmodified;
 3. the violation needs something SPECIFIC to manifest - an unusual input shape, a particular parameter combination, a multi-step sequence of operations, a particular random draw, or two cooperating sites that each look fine alone - NOT something that ordinary use or a trivial example would expose at once. Prefer subtle semantic errors over crashes. Do not special-case magic constants that no search could find (e.g. `if x == 123457`); the trigger should be a natural structural condition (sizes, ties, missing elements, ordering, equality of costs, ...).

{round2}
IMPORTANT: do NOT use `git stash` (the stash is shared with other worktrees of this repository); to switch between the changed and the unchanged tree use `git diff > /tmp/seed_{pid}.patch && git apply -R /tmp/seed_{pid}.patch` and `git apply /tmp/seed_{pid}.patch`.

DELIVERABLES, all inside /tmp/seed_{pid}/SEED/ :
 - patch.diff : output of `git -C /tmp/seed_{pid} diff` (source change only; do not commit; do not include the SEED directory or tests);
 - demo.py    : a small standalone program that exits with a NON-ZERO status (and prints what went wrong) when run against the changed tree, and exits 0 against the unchanged tree. It must decide by itself (e.g. brute-force enumeration or a direct computation from the definition), not by comparing with a hard-coded output of the changed code. Run it as `PYTHONPATH=/tmp/seed_{pid} /venv/bin/python SEED/demo.py`;
 - notes.md   : 5-10 lines: what you changed, why it breaks the property, what exactly is needed for the violation to manifest, and the commands you ran (tests with the change: pass; demo with the change: fails; demo on the unchanged tree: passes).
Verify all three claims yourself before finishing (switch between the changed and unchanged tree with git apply -R / git apply as explained above), and leave the worktree WITH the change applied. In your final answer give a 3-line summary.""")
