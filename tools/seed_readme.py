#!/usr/bin/env python3
# Regenerates seeded/README.md from the meta.json files (header text kept here).
import glob, json, os
root = os.path.join(os.path.dirname(os.path.dirname(os.path.abspath(__file__))), "seeded")
metas = []
for d in sorted(glob.glob(os.path.join(root, "*", "meta.json"))):
    metas.append((os.path.basename(os.path.dirname(d)), json.load(open(d))))
missed = [n for n, m in metas if "MISSED" in str(m.get("first_evaluation", ""))]
head = """# Independently written breaking changes

Each directory holds a change to pierreandrieu/corankco written by a fresh sub-agent that was given only the text of
one property and its own scratch git worktree of /repo (nothing from /verif): `patch.diff`, the author's demonstration
`demo.py` (exits non-zero with the change, 0 without), the author's `author_notes.md`, and `meta.json`. Every change was
confirmed in a new scratch worktree by `tools/seed_eval.sh` (demo passes on the unchanged tree, the 52 tests pass with
the change, the demo fails with it) before being kept, and the registered checks were then run against the changed copy.
None of these changes is ever applied to /repo. To re-run one: `tools/seed_eval.sh <name> seeded/<name>/patch.diff
seeded/<name>/demo.py "<property ids>"`; to re-run all of them: `tools/seed_all.sh` (`RESULTS.txt` holds its last complete pass, made after
round 5b over the 80 changes kept then; the changes of rounds 6-9 were each evaluated, and re-evaluated after the
check was strengthened, when they were kept - the verdict is in their `meta.json`; `RESULTS_final_sample.txt` is a
last re-evaluation, against the final checks, of 30 changes of rounds 1-5 that had once been missed: all caught).

%d changes in ten rounds: round 1 has one per property (20); round 2 a second, different change for every property
(20; the authors were told the earlier ideas so as to avoid them); rounds 3 and 4 (8 + 12, all twenty properties)
asked for violations that are HISTORY- or CONFIGURATION-DEPENDENT (only a sequence of calls on the same objects
misbehaves); round 5 (12 + 8, all twenty properties) asked for changes about element NAMES / TYPES, BOUNDARY shapes,
NUMERIC issues or unusual parameter combinations; round 6 (20, `-r6-`) asked for LESS-TRAVELLED PUBLIC PATHS (optional
parameters, alternative entry points), plausible PERFORMANCE OPTIMISATIONS that are wrong on a structural corner, or two
cooperating sites; round 7 (20, `-r7-`) asked the authors to break ONLY the least-tested secondary clause of
the statement (a refusal, an "exactly when", a "never", the second of two variants, objects left untouched); round 8 (20, `-r8-`) asked for changes in LOW-LEVEL SHARED MODULES (element, ranking, dataset, consensus, the
shared cost kernel) that break the property through that dependency; round 9 (19, `-r9-`; the author for C15 failed) asked for RARITY: a natural structural trigger
met by fewer than one uniformly random small input in 10 000; round 10 (6, `-r10-`: C05, C07, C11, C13, C15, C16) asked for a trigger
that COMBINES TWO CONDITIONS (a scheme shape together with a dataset shape). %d were caught by the check of their own property as it stood when they were first evaluated; %d
were missed by it at first (%s) - several of those were caught by another property's
check - and led to the generator / sub-check additions recorded in the last column and in DESIGN.md section 11. All
are caught by the quick tier now, with four remarks: `C09-r9-departures-deduplicated-by-text` (more than 1000 elements
and a local-search trap) only by the thorough tier; `C07-stepback-only-if-incomparable` at 3 seeds out of 4;
`C15-r2-borda-shared-att-dict` by C04, not by C15; `C04-r5-isclose-default-rtol` by C09 (through tiny-scale
penalties), not by C04, whose statement has an absolute tolerance.

| change | property | what it does | what it needs to manifest | caught by |
|---|---|---|---|---|
""" % (len(metas), len(metas) - len(missed), len(missed), ", ".join("`%s`" % n for n in missed))
rows = []
for n, m in metas:
    cb = "; ".join("%s: %s" % (k, v) for k, v in m.get("caught_by", {}).items())
    rows.append("| `%s` | %s | %s | %s | %s |" % (n, m["property"], m["what"].replace("|", "/"),
                                                  m["needs"].replace("|", "/"), cb.replace("|", "/")))
open(os.path.join(root, "README.md"), "w").write(head + "\n".join(rows) + "\n")
print(len(metas), "changes;", len(missed), "missed at first")
