#!/usr/bin/env python3
"""
Sensitivity self-test: apply a hand-written mutant (or a patch file) to a scratch copy of /repo under $TMPDIR,
optionally confirm the repository's own test-suite still passes there, run the property's check against the copy
(VERIF_REPO), report whether the check caught it, delete the copy.

  mutant.py list
  mutant.py run <mutant-id>|all [--tests] [--tier quick] [--prop C01[,C02]]
  mutant.py patch <file.diff> --prop C07 [--tests]
"""
import argparse
import json
import os
import shutil
import subprocess
import sys
import tempfile
import time

VERIF = os.path.dirname(os.path.dirname(os.path.abspath(__file__)))
REPO = "/repo"


def load():
    with open(os.path.join(VERIF, "mutants", "mutants.json")) as f:
        return json.load(f)


def make_copy():
    d = tempfile.mkdtemp(prefix="corankco_mut_")
    subprocess.check_call(["rsync", "-a", "--exclude", ".git", "--exclude", "__pycache__", REPO + "/", d + "/"])
    return d


def apply_edits(copy, edits):
    for e in edits:
        p = os.path.join(copy, e["file"])
        with open(p) as f:
            src = f.read()
        cnt = src.count(e["old"])
        want = e.get("count", 1)
        if cnt != want:
            raise ValueError("mutant edit does not apply: %r occurs %d times in %s (expected %d)"
                             % (e["old"], cnt, e["file"], want))
        src = src.replace(e["old"], e["new"])
        with open(p, "w") as f:
            f.write(src)


def run_tests(copy):
    env = dict(os.environ, PYTHONPATH=copy, PYTHONDONTWRITEBYTECODE="1")
    try:
        r = subprocess.run(["/venv/bin/python", "-m", "pytest", "-q", "-x", "-p", "no:cacheprovider", "--timeout=120",
                            "tests"], cwd=copy, env=env, capture_output=True, text=True, timeout=240)
    except subprocess.TimeoutExpired:
        return False, "test-suite hangs (killed after 240 s)"
    tail = r.stdout.strip().splitlines()[-1] if r.stdout.strip() else r.stderr[-300:]
    return r.returncode == 0, tail


def run_check(copy, prop, tier, seed="1"):
    env = dict(os.environ, VERIF_REPO=copy, VERIF_SEED=seed)
    t0 = time.time()
    r = subprocess.run(["/venv/bin/python", os.path.join(VERIF, "run_check.py"), prop, "--tier", tier],
                       env=env, cwd=VERIF, capture_output=True, text=True)
    # do not keep replay files produced against mutants
    for line in r.stdout.splitlines():
        if line.startswith("VIOLATION") and "replay=" in line:
            p = line.split("replay=")[1].strip()
            if os.path.exists(p):
                os.remove(p)
    return r.returncode, r.stdout, time.time() - t0


def one(name, edits, props, tests, tier, patch=None):
    copy = make_copy()
    try:
        if patch:
            subprocess.check_call(["patch", "-p1", "-s", "-i", os.path.abspath(patch)], cwd=copy)
        else:
            try:
                apply_edits(copy, edits)
            except ValueError as e:
                print("%-34s DOES-NOT-APPLY %s" % (name, str(e)[:160]), flush=True)
                return
        tres = ""
        if tests:
            ok, tail = run_tests(copy)
            tres = " tests:%s(%s)" % ("pass" if ok else "FAIL", tail)
        out = []
        for prop in props:
            rc, stdout, dt = run_check(copy, prop, tier)
            verdict = {0: "MISSED", 1: "caught", 2: "HARNESS-ERROR"}.get(rc, "rc=%d" % rc)
            detail = ""
            if rc == 1:
                for ln in stdout.splitlines():
                    if ln.strip().startswith("sub-check="):
                        detail = ln.strip()[:160]
                        break
            elif rc == 2:
                detail = stdout[-600:]
            out.append("%s:%s(%.0fs) %s" % (prop, verdict, dt, detail))
        print("%-34s %s%s" % (name, " | ".join(out), tres), flush=True)
    finally:
        shutil.rmtree(copy, ignore_errors=True)


def main():
    ap = argparse.ArgumentParser()
    ap.add_argument("cmd", choices=["list", "run", "patch"])
    ap.add_argument("target", nargs="?")
    ap.add_argument("--tests", action="store_true")
    ap.add_argument("--tier", default="quick")
    ap.add_argument("--prop", default=None)
    a = ap.parse_args()
    if a.cmd == "list":
        for m in load():
            print(m["id"], m["property"], "-", m.get("note", ""))
        return
    if a.cmd == "patch":
        one(os.path.basename(a.target), None, a.prop.split(","), a.tests, a.tier, patch=a.target)
        return
    ms = load()
    if a.target != "all":
        ms = [m for m in ms if m["id"] == a.target or m["property"] == a.target]
    for m in ms:
        if m.get("equivalent") and a.target in ("all", m["property"]):
            print("%-34s skipped: %s" % (m["id"], m["equivalent"]), flush=True)
            continue
        props = a.prop.split(",") if a.prop else [m["property"]]
        if not os.path.exists(os.path.join(VERIF, "checks", props[0].lower() + ".py")):
            continue
        one(m["id"], m["edits"], props, a.tests, a.tier)


if __name__ == "__main__":
    main()
