#!/bin/bash
# run every registered quick (or thorough) check with one seed; summary on stdout
# usage: tools/run_all.sh [seed] [tier] [props...]
SEED=${1:-1}; TIER=${2:-quick}; shift; shift
PROPS=${@:-C01 C02 C03 C04 C05 C06 C07 C08 C09 C10 C11 C12 C13 C14 C15 C16 C17 C18 C19 C20}
rc_all=0
for p in $PROPS; do
  out=$(VERIF_SEED=$SEED /venv/bin/python /verif/run_check.py $p --tier $TIER 2>&1); rc=$?
  echo "$out" | tail -n 1 | sed "s/^/[rc=$rc] /"
  if [ $rc -ne 0 ]; then echo "$out" | head -n 12; rc_all=1; fi
done
exit $rc_all
