#!/usr/bin/env python3
"""Populate the numba on-disk cache used by the workers (so 16 shards do not all compile at once)."""
import os
import subprocess
import sys
VERIF = os.path.dirname(os.path.dirname(os.path.abspath(__file__)))
sys.path.insert(0, VERIF)
from vlib import harness
os.makedirs(os.path.join(harness.WORK, "numba_cache"), exist_ok=True)
env = harness.child_env(1, 0)
code = ("from vlib import lib; from corankco.algorithms import *; "
        "d=lib.mk_dataset([[[1],[2,3]],[[3],[1]]]); s=lib.mk_scheme([[0,1,1,0,1,1],[1,1,0,1,1,0]]); "
        "print(BioConsert().compute_consensus_rankings(d,s,True).kemeny_score)")
sys.exit(subprocess.call([harness.python_exe(), "-c", code], env=env, cwd=VERIF))
