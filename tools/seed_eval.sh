#!/bin/bash
# usage: tools/seed_eval.sh <seed-dir-name> <patch.diff> <demo.py> "<props to run>" [tier]
# Confirms a proposed breaking change in a fresh scratch worktree of /repo (outside /repo and /verif):
#   demo passes without the change, existing tests pass with it, demo fails with it; then runs the listed checks
#   against the changed copy (VERIF_REPO) and reports which of them catch it.  Removes the worktree.
NAME=$1; PATCH=$(realpath $2); DEMO=$(realpath $3); PROPS=$4; TIER=${5:-quick}
WT=$(mktemp -d /tmp/sv_XXXXXX); rmdir $WT
git -C /repo worktree add --detach $WT HEAD -q || exit 2
cp $DEMO $WT/_demo.py
cd $WT
PYTHONPATH=$WT /venv/bin/python _demo.py > /tmp/sv_demo_clean.log 2>&1; d0=$?
git apply $PATCH 2>/dev/null || patch -p1 -s --fuzz=3 < $PATCH || { echo "$NAME: patch does not apply"; cd /; git -C /repo worktree remove --force $WT; exit 2; }
find . -name "*.orig" -delete; find . -name "*.rej" -delete
timeout 600 env PYTHONPATH=$WT /venv/bin/python -m pytest -q -p no:cacheprovider tests > /tmp/sv_tests.log 2>&1; t=$?
PYTHONPATH=$WT /venv/bin/python _demo.py > /tmp/sv_demo_changed.log 2>&1; d1=$?
echo "$NAME: demo(unchanged)=$d0 tests(changed)=$t [$(tail -1 /tmp/sv_tests.log)] demo(changed)=$d1"
for p in $PROPS; do
  out=$(VERIF_REPO=$WT /venv/bin/python /verif/run_check.py $p --tier $TIER 2>&1); rc=$?
  v=$(echo "$out" | grep -A1 "^VIOLATION" | head -2 | tail -1 | cut -c1-220)
  for f in $(echo "$out" | grep "^VIOLATION" | sed 's/.*replay=//'); do rm -f $f; done
  case $rc in 0) echo "   $p: MISSED";; 1) echo "   $p: caught $v";; *) echo "   $p: rc=$rc $(echo "$out" | tail -3)";; esac
done
cd /; git -C /repo worktree remove --force $WT
