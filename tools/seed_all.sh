#!/bin/bash
# re-evaluates every kept seeded change against the checks named in its meta.json (quick tier); one block per change
cd /verif
for d in seeded/*/; do
  name=$(basename $d)
  props=$(python3 -c "
import json,re
m=json.load(open('$d/meta.json'))
ps=[]
for k in m['caught_by']:
    p=k.split()[0]
    if p not in ps: ps.append(p)
print(' '.join(ps))")
  tools/seed_eval.sh $name $d/patch.diff $d/demo.py "$props" ${1:-quick}
done
