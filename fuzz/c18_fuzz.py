#!/venv/bin/python
"""atheris target for C18: bytes -> text over the format alphabet -> totality oracle (+ structured round trip)."""
import json
import os
import sys

VERIF = os.path.dirname(os.path.dirname(os.path.abspath(__file__)))
REPO = os.environ.get("VERIF_REPO", "/repo")
sys.path[:0] = [REPO, VERIF, os.path.join(VERIF, ".deps"), "/verif/.deps"]

import atheris  # noqa: E402

# corankco is imported normally (instrument_imports breaks numba's eager compilation); the scanner and the classes it
# feeds are instrumented function by function
from checks import c18  # noqa: E402
import corankco.utils as U  # noqa: E402
from corankco.ranking import Ranking  # noqa: E402
from corankco.element import Element  # noqa: E402

for fn_name in ("parse_ranking_with_ties", "parse_ranking_with_ties_of_str", "parse_ranking_with_ties_of_int"):
    try:
        setattr(U, fn_name, atheris.instrument_func(getattr(U, fn_name)))
    except Exception:  # noqa
        pass
import corankco.ranking as R  # noqa: E402
R.parse_ranking_with_ties_of_str = U.parse_ranking_with_ties_of_str
c18.parse_ranking_with_ties_of_str = U.parse_ranking_with_ties_of_str
c18.parse_ranking_with_ties_of_int = U.parse_ranking_with_ties_of_int

ALPHA = c18.FORMAT_ALPHABET
FINDINGS = os.environ.get("C18_FUZZ_FINDINGS")


def decode(data):
    return "".join(ALPHA[b % len(ALPHA)] for b in data)


def report(text, message):
    if FINDINGS:
        with open(FINDINGS, "w") as f:
            json.dump({"text": text, "message": message}, f)


def TestOneInput(data):
    if len(data) > 64:
        return
    if data and data[0] % 4 == 0:
        # structured mode: build a ranking from the bytes, render it, check the round trip
        fdp = atheris.FuzzedDataProvider(data[1:])
        n = fdp.ConsumeIntInRange(0, 6)
        names = []
        for i in range(n):
            v = fdp.ConsumeIntInRange(0, 50)
            if v not in names:
                names.append(v)
        r = []
        for e in names:
            if r and fdp.ConsumeBool():
                r[-1].append(e)
            else:
                r.append([e])
        style = ["braces", "brackets", "tight"][fdp.ConsumeIntInRange(0, 2)]
        text = c18.render(r, style, ["none", "ws", "name"][fdp.ConsumeIntInRange(0, 2)])
        try:
            got = Ranking.from_string(text)
            if [sorted(e.value for e in b) for b in got.buckets] != [sorted(b) for b in r]:
                raise c18.Violation("Ranking.from_string(%r) = %s, expected %s" % (text, got, r))
        except c18.Violation as v:
            report(text, str(v))
            raise
        except Exception as e:  # noqa
            report(text, "Ranking.from_string(%r) raised %s: %s" % (text, type(e).__name__, e))
            raise
        return
    text = decode(data)
    try:
        c18.fuzz_text_oracle(text)
    except c18.Violation as v:
        report(text, str(v))
        raise


if __name__ == "__main__":
    atheris.Setup(sys.argv, TestOneInput)
    atheris.Fuzz()
