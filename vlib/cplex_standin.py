"""
Stand-in for the subset of the CPLEX Python API that corankco calls, on top of a *generic* exact 0-1 ILP solver.
It knows nothing about rankings: it solves whatever model it is given (min c.x, rows with senses E/L/G, binaries).

Injected by rebinding the module-level name `cplex` in corankco.algorithms.exact.exactalgorithmcplex AFTER corankco
(and PuLP) were imported.  Never importable as a module named `cplex`.
"""
import itertools


class CplexError(Exception):
    pass


class _AnyParam:
    """parameters.<any>.<path>.set(value) is accepted and recorded"""

    def __init__(self, store, path=()):
        object.__setattr__(self, "_store", store)
        object.__setattr__(self, "_path", path)

    def __getattr__(self, name):
        return _AnyParam(self._store, self._path + (name,))

    def set(self, value):
        self._store[".".join(self._path)] = value

    def get(self):
        return self._store.get(".".join(self._path))


class _Sense:
    minimize = 1
    maximize = -1


class _Objective:
    sense = _Sense()

    def __init__(self):
        self._sense = 1

    def set_sense(self, s):
        if s not in (1, -1):
            raise CplexError("bad objective sense %r" % (s,))
        self._sense = s


class _Variables:
    def __init__(self):
        self.obj, self.lb, self.ub, self.types, self.names = [], [], [], [], []
        self.index = {}

    def add(self, obj=None, lb=None, ub=None, types="", names=None, columns=None):
        if columns is not None:
            raise CplexError("stand-in: columns not supported")
        lens = {len(x) for x in (obj, lb, ub, types, names) if x is not None and len(x) > 0}
        if len(lens) > 1:
            raise CplexError("CPLEX Error 1003: inconsistent argument lengths in variables.add: %s" % sorted(lens))
        n = lens.pop() if lens else 0
        obj = list(obj) if obj else [0.0] * n
        lb = list(lb) if lb else [0.0] * n
        ub = list(ub) if ub else [1.0] * n
        types = types if types else "B" * n
        names = list(names) if names else ["x%d" % (len(self.names) + i) for i in range(n)]
        for i in range(n):
            if types[i] not in "BI":
                raise CplexError("stand-in: only binary/integer variables supported, got %r" % types[i])
            if names[i] in self.index:
                raise CplexError("duplicate variable name %r" % names[i])
            self.index[names[i]] = len(self.names)
            self.obj.append(float(obj[i]))
            self.lb.append(float(lb[i]))
            self.ub.append(float(ub[i]))
            self.types.append(types[i])
            self.names.append(names[i])
        return range(len(self.names) - n, len(self.names))

    def get_num(self):
        return len(self.names)

    def get_names(self):
        return list(self.names)


class _LinearConstraints:
    def __init__(self, variables):
        self._v = variables
        self.rows, self.senses, self.rhs, self.names = [], [], [], []

    def add(self, lin_expr=None, senses="", rhs=None, range_values=None, names=None):
        lin_expr = list(lin_expr) if lin_expr is not None else []
        rhs = list(rhs) if rhs is not None else []
        names = list(names) if names is not None else []
        lens = {len(lin_expr), len(senses), len(rhs)}
        if names:
            lens.add(len(names))
        if len(lens) > 1:
            raise CplexError("CPLEX Error 1003: inconsistent argument lengths in linear_constraints.add: "
                             "lin_expr=%d senses=%d rhs=%d names=%d" % (len(lin_expr), len(senses), len(rhs),
                                                                         len(names)))
        for k, row in enumerate(lin_expr):
            ind, val = row[0], row[1]
            if len(ind) != len(val):
                raise CplexError("row %d: indices and values differ in length" % k)
            idx = []
            for name in ind:
                if isinstance(name, str):
                    if name not in self._v.index:
                        raise CplexError("CPLEX Error 1210: Name %r does not exist" % name)
                    idx.append(self._v.index[name])
                else:
                    if not 0 <= int(name) < len(self._v.names):
                        raise CplexError("CPLEX Error 1201: Column index %r out of range" % name)
                    idx.append(int(name))
            if len(set(idx)) != len(idx):
                raise CplexError("CPLEX Error 1436: duplicate entries in row %d" % k)
            if senses[k] not in "ELG":
                raise CplexError("bad sense %r" % senses[k])
            self.rows.append((idx, [float(v) for v in val]))
            self.senses.append(senses[k])
            self.rhs.append(float(rhs[k]))
            self.names.append(names[k] if names else "c%d" % len(self.names))

    def get_num(self):
        return len(self.rows)


class _Pool:
    def __init__(self, owner):
        self._o = owner

    def get_num(self):
        return len(self._o._pool)

    def get_values(self, i):
        return list(self._o._pool[i])

    def get_objective_value(self, i):
        return self._o._value(self._o._pool[i])


class _Solution:
    def __init__(self, owner):
        self._o = owner
        self.pool = _Pool(owner)

    def get_values(self, *a):
        if self._o._best is None:
            raise CplexError("CPLEX Error 1217: No solution exists")
        return list(self._o._best)

    def get_objective_value(self):
        if self._o._best is None:
            raise CplexError("CPLEX Error 1217: No solution exists")
        return self._o._value(self._o._best)


class Cplex:
    def __init__(self):
        self._params = {}
        self.parameters = _AnyParam(self._params)
        self.objective = _Objective()
        self.variables = _Variables()
        self.linear_constraints = _LinearConstraints(self.variables)
        self.solution = _Solution(self)
        self._best = None
        self._pool = []
        self.stats = {}

    def set_results_stream(self, *a):
        pass

    set_log_stream = set_error_stream = set_warning_stream = set_results_stream

    def _value(self, x):
        return sum(c * v for c, v in zip(self.variables.obj, x))

    def _solver(self):
        v, lc = self.variables, self.linear_constraints
        sgn = self.objective._sense
        return ILP([c * sgn for c in v.obj], lc.rows, lc.senses, lc.rhs, v.lb, v.ub)

    def solve(self):
        s = self._solver()
        sols = s.solve(False, 0.0)
        self.stats = s.stats
        self._best = [float(t) for t in sols[0]] if sols else None
        self._pool = [self._best] if self._best else []

    def populate_solution_pool(self):
        gap = self._params.get("mip.pool.absgap")
        if gap is None:
            gap = 1e-6
        s = self._solver()
        sols = s.solve(True, float(gap))
        self.stats = s.stats
        self._pool = [[float(t) for t in x] for x in sols]
        self._best = self._pool[0] if self._pool else None


# ================================================================================================
class ILP:
    """min c.x ; rows (idx, coef) sense rhs ; x binary with optional fixed bounds.  Exact DFS with interval
    propagation on every row and a generic lower bound from disjoint 'exactly one' rows."""

    EPS = 1e-9

    def __init__(self, c, rows, senses, rhs, lb=None, ub=None):
        self.n = len(c)
        self.c = list(c)
        # normalise to  sum a x <= b   rows
        self.R = []
        for (idx, coef), s, b in zip(rows, senses, rhs):
            if s in "LE":
                self.R.append((list(idx), list(coef), b))
            if s in "GE":
                self.R.append((list(idx), [-a for a in coef], -b))
        self.touch = [[] for _ in range(self.n)]
        for r, (idx, coef, b) in enumerate(self.R):
            for i in idx:
                self.touch[i].append(r)
        # exactly-one rows (generic set-partitioning structure) for branching and bounding
        self.xor_rows = []
        used = set()
        for (idx, coef), s, b in zip(rows, senses, rhs):
            if s == "E" and abs(b - 1) < 1e-12 and all(abs(a - 1) < 1e-12 for a in coef):
                if not (set(idx) & used):
                    self.xor_rows.append(list(idx))
                    used.update(idx)
        self.in_xor = used
        self.val = [-1] * self.n
        self.trail = []
        self.stats = {"nodes": 0}
        self.lb0 = lb
        self.ub0 = ub

    def _set(self, i, v):
        """assign and propagate; returns False on conflict"""
        stack = [(i, v)]
        while stack:
            i, v = stack.pop()
            if self.val[i] != -1:
                if self.val[i] != v:
                    return False
                continue
            self.val[i] = v
            self.trail.append(i)
            for r in self.touch[i]:
                idx, coef, b = self.R[r]
                mn = 0.0
                for j, a in zip(idx, coef):
                    vj = self.val[j]
                    if vj == 1:
                        mn += a
                    elif vj == -1 and a < 0:
                        mn += a
                if mn > b + self.EPS:
                    return False
                for j, a in zip(idx, coef):
                    if self.val[j] == -1:
                        if a > 0 and mn + a > b + self.EPS:
                            stack.append((j, 0))
                        elif a < 0 and mn - a > b + self.EPS:
                            stack.append((j, 1))
        return True

    def _undo(self, mark):
        while len(self.trail) > mark:
            self.val[self.trail.pop()] = -1

    def _bound(self):
        """cost of vars fixed to 1 + for each open exactly-one row the cheapest open var + negative-cost free vars"""
        tot = 0.0
        for i in range(self.n):
            if self.val[i] == 1:
                tot += self.c[i]
            elif self.val[i] == -1 and i not in self.in_xor and self.c[i] < 0:
                tot += self.c[i]
        for row in self.xor_rows:
            if any(self.val[i] == 1 for i in row):
                continue
            opts = [self.c[i] for i in row if self.val[i] == -1]
            if opts:
                tot += min(opts)
        return tot

    def solve(self, all_solutions, gap):
        self.best = None
        self.sols = []
        ok = True
        mark = len(self.trail)
        for i in range(self.n):
            if self.lb0 is not None and self.lb0[i] > 0.5:
                ok = ok and self._set(i, 1)
            if ok and self.ub0 is not None and self.ub0[i] < 0.5:
                ok = ok and self._set(i, 0)
        # rows without variables / initial propagation of every row
        if ok:
            for idx, coef, b in self.R:
                mn = sum(a for a in coef if a < 0)
                if mn > b + self.EPS:
                    ok = False
                    break
        if ok:
            # propagate rows that already force something
            for idx, coef, b in self.R:
                mn = sum(a for j, a in zip(idx, coef) if (self.val[j] == 1) or (self.val[j] == -1 and a < 0))
                for j, a in zip(idx, coef):
                    if self.val[j] == -1:
                        if a > 0 and mn + a > b + self.EPS:
                            ok = ok and self._set(j, 0)
                        elif a < 0 and mn - a > b + self.EPS:
                            ok = ok and self._set(j, 1)
                if not ok:
                    break
        if ok:
            self._dfs(False, 0.0)
            if all_solutions and self.best is not None:
                opt = self.best
                self.sols = []
                self._dfs(True, opt + gap)
        self._undo(mark)
        if self.best is None:
            return []
        if all_solutions:
            self.sols.sort(key=lambda s: (s[0], s[1]))
            return [s[1] for s in self.sols]
        return [self.best_x]

    def _dfs(self, collect, limit):
        self.stats["nodes"] += 1
        lb = self._bound()
        if collect:
            if lb > limit + self.EPS:
                return
        elif self.best is not None and lb >= self.best - self.EPS:
            return
        # choose branching
        row = None
        for r in self.xor_rows:
            if not any(self.val[i] == 1 for i in r):
                row = r
                break
        if row is not None:
            opts = sorted((i for i in row if self.val[i] == -1), key=lambda i: self.c[i])
            for i in opts:
                mark = len(self.trail)
                if self._set(i, 1):
                    self._dfs(collect, limit)
                self._undo(mark)
            return
        free = next((i for i in range(self.n) if self.val[i] == -1), None)
        if free is None:
            cost = sum(self.c[i] for i in range(self.n) if self.val[i] == 1)
            if collect:
                if cost <= limit + self.EPS:
                    self.sols.append((cost, list(self.val)))
            elif self.best is None or cost < self.best - self.EPS:
                self.best = cost
                self.best_x = list(self.val)
            return
        order = (0, 1) if self.c[free] >= 0 else (1, 0)
        for v in order:
            mark = len(self.trail)
            if self._set(free, v):
                self._dfs(collect, limit)
            self._undo(mark)


def brute_force(c, rows, senses, rhs):
    """all optimal 0-1 points by enumeration (self-test of ILP)"""
    n = len(c)
    best, arg = None, []
    for x in itertools.product((0, 1), repeat=n):
        ok = True
        for (idx, coef), s, b in zip(rows, senses, rhs):
            act = sum(a * x[i] for i, a in zip(idx, coef))
            if (s == "L" and act > b + 1e-9) or (s == "G" and act < b - 1e-9) or (s == "E" and abs(act - b) > 1e-9):
                ok = False
                break
        if ok:
            v = sum(ci * xi for ci, xi in zip(c, x))
            if best is None or v < best - 1e-9:
                best, arg = v, [list(x)]
            elif abs(v - best) <= 1e-9:
                arg.append(list(x))
    return best, arg


def self_test(rnd):
    """random tiny ILPs: DFS vs brute force.  rnd: random.Random"""
    for _ in range(60):
        n = rnd.randint(1, 7)
        c = [rnd.choice([0, 0.25, 0.5, 1, 2, -1]) for _ in range(n)]
        rows, senses, rhs = [], "", []
        for _ in range(rnd.randint(0, 6)):
            k = rnd.randint(1, min(3, n))
            idx = rnd.sample(range(n), k)
            rows.append((idx, [rnd.choice([1, 1, 2, -1]) for _ in idx]))
            senses += rnd.choice("ELG")
            rhs.append(rnd.choice([0, 1, 1, 2]))
        bo, barg = brute_force(c, rows, senses, rhs)
        s = ILP(c, rows, senses, rhs)
        sols = s.solve(True, 1e-9)
        if bo is None:
            assert sols == [], ("stand-in found a solution of an infeasible ILP", c, rows, senses, rhs)
        else:
            assert sorted(sols) == sorted(barg), ("stand-in pool differs from brute force", c, rows, senses, rhs,
                                                   sols, barg)
            s2 = ILP(c, rows, senses, rhs)
            one = s2.solve(False, 0)
            assert one and one[0] in barg
