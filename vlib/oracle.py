"""
Reference model of the generalized Kemeny framework.  NOTHING here imports corankco.

A *model ranking* is a list of buckets, each bucket a list (or set) of raw element names (int or str).
A *model dataset* is a list of model rankings.  A scheme is (B, T): two lists of six numbers.

All arithmetic is exact: the twelve penalties are converted with fractions.Fraction (for a float this
is the exact binary value), brought to a common denominator, and every count is done in Python ints.
`Scaled.to_fraction` converts a scaled integer back.
"""
from fractions import Fraction
from itertools import combinations
from math import lcm


# ----------------------------------------------------------------------------------------------
# basic views
def universe(rankings):
    """elements in first-appearance order (ranking by ranking, bucket by bucket, member by member)"""
    seen = {}
    for r in rankings:
        for b in r:
            for e in b:
                if e not in seen:
                    seen[e] = len(seen)
    return list(seen)


def bucket_index(r):
    """dict element -> index of its bucket"""
    d = {}
    for i, b in enumerate(r):
        for e in b:
            d[e] = i
    return d


def positions_of(r):
    """dict element -> 1 + number of elements in earlier buckets"""
    d = {}
    pos = 1
    for b in r:
        for e in b:
            d[e] = pos
        pos += len(b)
    return d


def status(bidx, x, y):
    """status of the ordered pair (x, y) in an input ranking given by its bucket_index dict:
    0 x before y, 1 x after y, 2 tied, 3 only x ranked, 4 only y ranked, 5 none ranked"""
    px = bidx.get(x)
    py = bidx.get(y)
    if px is not None and py is not None:
        if px < py:
            return 0
        if px > py:
            return 1
        return 2
    if px is not None:
        return 3
    if py is not None:
        return 4
    return 5


def canon(r):
    """hashable canonical form of a model ranking: tuple of frozensets"""
    return tuple(frozenset(b) for b in r)


# ----------------------------------------------------------------------------------------------
class Scaled:
    """Penalties scaled to integers."""

    def __init__(self, scheme):
        b = [Fraction(x) for x in scheme[0]]
        t = [Fraction(x) for x in scheme[1]]
        self.den = 1
        for x in b + t:
            self.den = lcm(self.den, x.denominator)
        self.B = [int(x * self.den) for x in b]
        self.T = [int(x * self.den) for x in t]

    def to_fraction(self, v):
        return Fraction(v, self.den)

    def to_float(self, v):
        return float(Fraction(v, self.den))


class Instance:
    """A (dataset, scheme) pair with its exact pairwise cost table over a given element list."""

    def __init__(self, rankings, scheme, elements=None):
        self.rankings = rankings
        self.sc = Scaled(scheme)
        self.elements = list(elements) if elements is not None else universe(rankings)
        self.n = len(self.elements)
        self.idx = {e: i for i, e in enumerate(self.elements)}
        self.bidx = [bucket_index(r) for r in rankings]
        # identical rankings are counted once with their multiplicity (datasets with thousands of repeated ballots)
        mult = {}
        for r in rankings:
            k = canon(r)
            if k in mult:
                mult[k][1] += 1
            else:
                mult[k] = [bucket_index(r), 1]
        groups = list(mult.values())
        n = self.n
        B, T = self.sc.B, self.sc.T
        # counts[i][j] = six status counts of ordered pair (i, j)
        self.before = [[0] * n for _ in range(n)]   # cost of i before j
        self.tied = [[0] * n for _ in range(n)]     # cost of i tied with j
        self.counts = [[None] * n for _ in range(n)]
        for i in range(n):
            x = self.elements[i]
            for j in range(n):
                if i == j:
                    continue
                y = self.elements[j]
                c = [0] * 6
                for bi, w in groups:
                    c[status(bi, x, y)] += w
                self.counts[i][j] = c
                self.before[i][j] = sum(B[k] * c[k] for k in range(6))
                self.tied[i][j] = sum(T[k] * c[k] for k in range(6))

    # cost of i after j is before[j][i]
    def triple(self, x, y):
        """(before, after, tied) of the ordered pair of *elements* (x, y), scaled ints"""
        i, j = self.idx[x], self.idx[y]
        return self.before[i][j], self.before[j][i], self.tied[i][j]

    def triple_fr(self, x, y):
        return tuple(self.sc.to_fraction(v) for v in self.triple(x, y))

    def score_scaled(self, cand):
        """score of a candidate ranking over (a superset of) self.elements; candidate elements that are not
        in self.elements are treated by the definition as ranked in no input ranking."""
        cb = bucket_index(cand)
        els = list(cb)
        B, T = self.sc.B, self.sc.T
        total = 0
        m = len(self.rankings)
        for a in range(len(els)):
            x = els[a]
            for b in range(a + 1, len(els)):
                y = els[b]
                i = self.idx.get(x)
                j = self.idx.get(y)
                if i is not None and j is not None:
                    if cb[x] < cb[y]:
                        total += self.before[i][j]
                    elif cb[x] > cb[y]:
                        total += self.before[j][i]
                    else:
                        total += self.tied[i][j]
                else:
                    # at least one foreign element: count statuses directly
                    if cb[x] == cb[y]:
                        for bi in self.bidx:
                            total += T[status(bi, x, y)]
                    else:
                        first, second = (x, y) if cb[x] < cb[y] else (y, x)
                        for bi in self.bidx:
                            total += B[status(bi, first, second)]
        return total

    def score(self, cand):
        return self.sc.to_fraction(self.score_scaled(cand))

    # ------------------------------------------------------------------------------------------
    # exact optimum by subset DP (over a subset of the elements, given as a list of indices)
    def _tables(self, ids):
        k = len(ids)
        full = 1 << k
        # tie_cost[mask] = sum of tied costs over pairs inside mask
        tie_cost = [0] * full
        # into[y][mask] = sum over x in mask of before[x][y]  (cost of putting all of mask before y)
        into = [[0] * full for _ in range(k)]
        for mask in range(1, full):
            low = (mask & -mask).bit_length() - 1
            rest = mask & (mask - 1)
            t = tie_cost[rest]
            r = rest
            while r:
                o = (r & -r).bit_length() - 1
                t += self.tied[ids[low]][ids[o]]
                r &= r - 1
            tie_cost[mask] = t
            for y in range(k):
                if not (mask >> y) & 1:
                    into[y][mask] = into[y][rest] + self.before[ids[low]][ids[y]]
        return tie_cost, into

    def _dp(self, ids):
        k = len(ids)
        full = 1 << k
        tie_cost, into = self._tables(ids)
        INF = None
        f = [INF] * full
        f[0] = 0
        # f[S] = min cost of a ranking of exactly the set S (pairs inside S only)
        for S in range(1, full):
            best = None
            T = S
            while T:
                P = S ^ T
                # last bucket is T, prefix is P
                c = f[P] + tie_cost[T]
                t = T
                while t:
                    y = (t & -t).bit_length() - 1
                    c += into[y][P]
                    t &= t - 1
                if best is None or c < best:
                    best = c
                T = (T - 1) & S
            f[S] = best
        return f, tie_cost, into

    def optimum_scaled(self, elements=None):
        ids = list(range(self.n)) if elements is None else [self.idx[e] for e in elements]
        if not ids:
            return 0
        f, _, _ = self._dp(ids)
        return f[-1]

    def optimum(self, elements=None):
        return self.sc.to_fraction(self.optimum_scaled(elements))

    def all_optima(self, cap=20000):
        """set of canonical rankings (tuple of frozensets) with minimal score; None if more than cap"""
        ids = list(range(self.n))
        f, tie_cost, into = self._dp(ids)
        full = (1 << self.n) - 1
        res = []
        els = self.elements

        def rec(S, suffix):
            if S == 0:
                res.append(tuple(suffix))
                return len(res) <= cap
            T = S
            while T:
                P = S ^ T
                c = f[P] + tie_cost[T]
                t = T
                while t:
                    y = (t & -t).bit_length() - 1
                    c += into[y][P]
                    t &= t - 1
                if c == f[S]:
                    bucket = frozenset(els[i] for i in range(self.n) if (T >> i) & 1)
                    if not rec(P, [bucket] + suffix):
                        return False
                T = (T - 1) & S
            return True

        ok = rec(full, [])
        if not ok:
            return None
        return set(res)

    def best_consistent_scaled(self, partition):
        """minimum score over rankings in which every element of an earlier group is strictly before every element
        of a later group"""
        total = 0
        groups = [[self.idx[e] for e in g] for g in partition]
        for g in groups:
            f, _, _ = self._dp(g)
            total += f[-1]
        for a in range(len(groups)):
            for b in range(a + 1, len(groups)):
                for i in groups[a]:
                    for j in groups[b]:
                        total += self.before[i][j]
        return total

    # ------------------------------------------------------------------------------------------
    def placement(self, x, y):
        """KwikSort / documentation rule for placing x relative to y: 'tied' if tying is not more expensive than both
        orders, else 'before' if before is not more expensive than after, else 'after'."""
        b, a, t = self.triple(x, y)
        if t <= b and t <= a:
            return 0
        if b <= a:
            return -1
        return 1


# ----------------------------------------------------------------------------------------------
def graph_components(inst):
    """strongly connected components (as lists of element indices) of the 'graph of elements': arc (i, j) iff placing
    i after j is not a cheapest placement of the pair, i.e. after(i,j) > before(i,j) or after(i,j) > tied(i,j).
    Returned in a topological order of the condensation (sources first).  Plain Kosaraju; independent of igraph."""
    n = inst.n
    adj = [[] for _ in range(n)]
    radj = [[] for _ in range(n)]
    for i in range(n):
        for j in range(n):
            if i != j:
                after = inst.before[j][i]
                if after > inst.before[i][j] or after > inst.tied[i][j]:
                    adj[i].append(j)
                    radj[j].append(i)
    order, seen = [], [False] * n
    for s0 in range(n):
        if seen[s0]:
            continue
        stack = [(s0, 0)]
        seen[s0] = True
        while stack:
            v, k = stack.pop()
            if k < len(adj[v]):
                stack.append((v, k + 1))
                w = adj[v][k]
                if not seen[w]:
                    seen[w] = True
                    stack.append((w, 0))
            else:
                order.append(v)
    comp = [-1] * n
    comps = []
    for s0 in reversed(order):
        if comp[s0] != -1:
            continue
        cid = len(comps)
        comps.append([])
        stack = [s0]
        comp[s0] = cid
        while stack:
            v = stack.pop()
            comps[cid].append(v)
            for w in radj[v]:
                if comp[w] == -1:
                    comp[w] = cid
                    stack.append(w)
    return comps


def can_be_all_tied(inst, ids):
    for a in range(len(ids)):
        for b in range(a + 1, len(ids)):
            i, j = ids[a], ids[b]
            if inst.tied[i][j] > min(inst.before[i][j], inst.before[j][i]):
                return False
    return True


# ----------------------------------------------------------------------------------------------
def weak_orders(elements):
    """all rankings with ties (ordered set partitions) of the given list"""
    elements = list(elements)
    if not elements:
        yield []
        return
    n = len(elements)
    for size in range(1, n + 1):
        for first in combinations(range(n), size):
            fs = set(first)
            bucket = [elements[i] for i in first]
            rest = [elements[i] for i in range(n) if i not in fs]
            for tail in weak_orders(rest):
                yield [bucket] + tail


def brute_optimum_scaled(inst):
    best = None
    argbest = []
    for w in weak_orders(inst.elements):
        s = inst.score_scaled(w)
        if best is None or s < best:
            best = s
            argbest = [canon(w)]
        elif s == best:
            argbest.append(canon(w))
    return best, set(argbest)


def naive_score(cand, rankings, scheme):
    """Direct transcription of the definition with Fractions, independent even of Instance (used for self-test)."""
    B = [Fraction(x) for x in scheme[0]]
    T = [Fraction(x) for x in scheme[1]]
    cb = bucket_index(cand)
    els = list(cb)
    total = Fraction(0)
    for r in rankings:
        bi = bucket_index(r)
        for a in range(len(els)):
            for b in range(a + 1, len(els)):
                x, y = els[a], els[b]
                if cb[x] == cb[y]:
                    total += T[status(bi, x, y)]
                elif cb[x] < cb[y]:
                    total += B[status(bi, x, y)]
                else:
                    total += B[status(bi, y, x)]
    return total


# ----------------------------------------------------------------------------------------------
def unify(r, univ):
    """ranking completed with one last bucket of its missing elements (nothing appended when none is missing)"""
    present = set()
    for b in r:
        present.update(b)
    missing = [e for e in univ if e not in present]
    out = [list(b) for b in r]
    if missing:
        out.append(missing)
    return out


def project(r, keep):
    out = []
    for b in r:
        nb = [e for e in b if e in keep]
        if nb:
            out.append(nb)
    return out


def consistent(partition, cand):
    """reference predicate of C07: same element set and, for i<j, x in G_i, y in G_j  =>  x strictly before y"""
    pe = set()
    for g in partition:
        pe.update(g)
    cb = bucket_index(cand)
    if set(cb) != pe or sum(len(g) for g in partition) != len(pe):
        return False
    for a in range(len(partition)):
        for b in range(a + 1, len(partition)):
            for x in partition[a]:
                for y in partition[b]:
                    if not cb[x] < cb[y]:
                        return False
    return True


def self_test(rng_cases):
    """cross-check DP optimum / all_optima against brute force and Instance.score against naive_score.
    rng_cases: iterable of (rankings, scheme).  Raises AssertionError (harness error) on disagreement."""
    for rankings, scheme in rng_cases:
        inst = Instance(rankings, scheme)
        if inst.n > 5:
            continue
        bo, bset = brute_optimum_scaled(inst)
        assert bo == inst.optimum_scaled(), ("oracle DP disagrees with brute force", rankings, scheme)
        ao = inst.all_optima()
        assert ao == bset, ("oracle all_optima disagrees with brute force", rankings, scheme)
        for w in list(weak_orders(inst.elements))[:7]:
            assert inst.score(w) == naive_score(w, rankings, scheme)
