"""
Datasets that reach their rankings through an in-place mutation of a Dataset object that was already USED.

A check that wants to know whether state computed before a mutation (caches on the Dataset, on an algorithm instance,
on a score factory, ...) survives it builds its Dataset with `build(rankings, via, warm)`:
  1. a bigger dataset is built (an extra element placed in every ranking and/or extra empty rankings),
  2. `warm(d)` is called on it (default: every read-only view, an equality test, a cost table, a Copeland run),
  3. the extra material is removed in place (remove_elements / remove_empty_rankings),
and the resulting object must behave exactly like a Dataset built directly from `rankings`.
Precondition: no ranking of `rankings` is empty (what remove_elements does with already-empty rankings is unspecified).
"""
from hypothesis import strategies as st
from vlib import lib


@st.composite
def via_strategy(draw, rankings, p=4):
    """None (3 times out of p... i.e. direct construction) or a mutation recipe"""
    k = draw(st.integers(0, 2 * p - 1))
    if k == 1:
        # no mutation, but another public construction route than Dataset.from_raw_list (see build_route)
        return {"kind": "route", "route": draw(st.sampled_from(ROUTES))}
    if k != 0 or not rankings or any(len(r) == 0 for r in rankings):
        return None
    return {"kind": draw(st.sampled_from(["element", "empty", "empty", "both"])),
            "pos": [draw(st.integers(0, 10 ** 6)) for _ in range(len(rankings))],
            "where": draw(st.integers(0, len(rankings))), "nb_empty": draw(st.sampled_from([1, 1, 2]))}


ROUTES = ["ctor", "elements", "strings", "file", "subproblem"]


def _plain(rankings):
    """names that the text notation is promised to carry unchanged (C18): non-negative ints only, or strings of ascii
    letters only"""
    names = [e for r in rankings for b in r for e in b]
    return (all(isinstance(e, int) and not isinstance(e, bool) and e >= 0 for e in names)
            or all(isinstance(e, str) and e.isascii() and e.isalpha() for e in names))


def build_route(rankings, route):
    """the same rankings through another public construction route; C16 / C18 promise the same dataset"""
    import os
    import shutil
    import tempfile
    from corankco.dataset import Dataset
    from corankco.ranking import Ranking
    from corankco.element import Element
    if route == "ctor":
        return Dataset([Ranking(r) for r in lib.raw_ranking_list(rankings)])
    if route == "elements":
        return Dataset.from_raw_list([[{Element(e) for e in b} for b in r] for r in rankings])
    if route == "subproblem":
        # the whole universe kept: a projection that removes nothing (empty rankings are kept on request)
        d = lib.mk_dataset(rankings)
        return d.sub_problem_from_elements(set(d.universe), keep_empty_rankings=True)
    if not _plain(rankings):
        return lib.mk_dataset(rankings)
    if route == "strings":
        return Dataset([Ranking.from_string(str(Ranking(r))) for r in lib.raw_ranking_list(rankings)])
    base = os.path.join(lib.VERIF, ".work", "routes")
    os.makedirs(base, exist_ok=True)
    tmp = tempfile.mkdtemp(prefix="rt_", dir=base)
    try:
        path = os.path.join(tmp, "d.txt")
        lib.mk_dataset(rankings).write(path)
        return Dataset.from_file(path)
    finally:
        shutil.rmtree(tmp, ignore_errors=True)


def default_warm(d):
    from corankco.algorithms.pairwisebasedalgorithm import PairwiseBasedAlgorithm
    from corankco.algorithms.copeland.copeland import CopelandMethod
    s = lib.mk_scheme([[0., 1., 1., 0., 1., 1.], [1., 1., 0., 1., 1., 0.]])
    d.get_positions()
    d.get_bucket_ids()
    d.unified_rankings()
    d.unified_dataset()
    _ = (d == d)
    str(d)
    d.description()
    PairwiseBasedAlgorithm.pairwise_cost_matrix(d.get_positions(), s)
    CopelandMethod().compute_consensus_rankings(d, s, True)


def extra_name(rankings):
    names = [e for r in rankings for b in r for e in b]
    if all(isinstance(e, int) for e in names):
        return max([abs(e) for e in names] + [0]) + 4242
    return "zzextra"


def build(rankings, via, warm=None):
    if not via:
        return lib.mk_dataset(rankings)
    kind = via["kind"]
    if kind == "route":
        with lib.quiet():
            return build_route(rankings, via["route"])
    bigger = [[list(b) for b in r] for r in rankings]
    extra = extra_name(rankings)
    if kind in ("element", "both"):
        for rr, k in zip(bigger, via["pos"]):
            pos = k % (2 * len(rr) + 1)
            if pos % 2 == 0:
                rr.insert(pos // 2, [extra])
            else:
                rr[pos // 2] = rr[pos // 2] + [extra]
    if kind in ("empty", "both"):
        for _ in range(via.get("nb_empty", 1)):
            bigger.insert(min(via["where"], len(bigger)), [])
    d = lib.mk_dataset(bigger)
    with lib.quiet():
        try:
            (warm or default_warm)(d)
        except Exception:  # noqa  (a refusal of the warm-up call is not the subject)
            pass
        if warm is not None:
            try:
                default_warm(d)
            except Exception:  # noqa
                pass
        if kind in ("element", "both"):
            d.remove_elements({lib.Element(extra)})
        if kind in ("empty", "both"):
            d.remove_empty_rankings()
    return d
