"""Registry of algorithm configurations and the two solver environments (CPLEX absent / CPLEX API present)."""
import contextlib
import random

from corankco.algorithms.algorithm_choice import get_algorithm, Algorithm
from corankco.algorithms.exact.exactalgorithm import ExactAlgorithm
from corankco.algorithms.exact.exactalgorithmpulp import ExactAlgorithmPulp
from corankco.algorithms.exact.exactalgorithmcplex import ExactAlgorithmCplex
from corankco.algorithms.exact.exactalgorithmcplexforpaperoptim1 import ExactAlgorithmCplexForPaperOptim1
from corankco.algorithms.exact.exactalgorithmbase import IncompatibleArgumentsException
from corankco.algorithms.exact import exactalgorithmcplex as _cplex_mod
from corankco.algorithms.parcons.parcons import ParCons
from corankco.algorithms.bioconsert.bioconsert import BioConsert
from corankco.algorithms.bioconsert.bioco import BioCo
from corankco.algorithms.kwiksort.kwiksortrandom import KwikSortRandom
from corankco.algorithms.borda.borda import BordaCount
from corankco.algorithms.copeland.copeland import CopelandMethod
from corankco.algorithms.pickaperm.pickaperm import PickAPerm, InompleteRankingsIncompatibleWithScoringSchemeException
from corankco.algorithms.rank_aggregation_algorithm import RankAggAlgorithm, ScoringSchemeNotHandledException

from vlib import cplex_standin

_MISSING = object()
_ORIG_CPLEX = getattr(_cplex_mod, "cplex", _MISSING)
REAL_CPLEX_PRESENT = _ORIG_CPLEX is not _MISSING and _ORIG_CPLEX is not None

REFUSALS = (ScoringSchemeNotHandledException, InompleteRankingsIncompatibleWithScoringSchemeException)


@contextlib.contextmanager
def solver_env(kind):
    """'absent': the module is as imported in this sandbox (no cplex); 'standin': CPLEX API present."""
    prev = getattr(_cplex_mod, "cplex", _MISSING)
    try:
        if kind == "standin":
            _cplex_mod.cplex = cplex_standin
        else:
            if _ORIG_CPLEX is _MISSING:
                if hasattr(_cplex_mod, "cplex"):
                    delattr(_cplex_mod, "cplex")
            else:
                _cplex_mod.cplex = _ORIG_CPLEX
        yield
    finally:
        if prev is _MISSING:
            if hasattr(_cplex_mod, "cplex"):
                delattr(_cplex_mod, "cplex")
        else:
            _cplex_mod.cplex = prev


class Recorder(RankAggAlgorithm):
    """recording proxy: delegates to an inner algorithm and remembers every call and what it returned"""

    def __init__(self, inner):
        self.inner = inner
        self.calls = []

    def compute_consensus_rankings(self, dataset, scoring_scheme, return_at_most_one_ranking=True, bench_mode=False):
        res = self.inner.compute_consensus_rankings(dataset, scoring_scheme, return_at_most_one_ranking, bench_mode)
        self.calls.append((dataset, res))
        return res

    def get_full_name(self):
        return "Recorder(" + self.inner.get_full_name() + ")"

    def is_scoring_scheme_relevant_when_incomplete_rankings(self, scoring_scheme):
        return self.inner.is_scoring_scheme_relevant_when_incomplete_rankings(scoring_scheme)


class Config:
    def __init__(self, name, factory, envs=("absent",), rng=False, exact=False, cplex_only=False, all_flag_ok=True,
                 family=None, max_n=None):
        self.name, self.factory = name, factory
        self.envs = envs            # solver environments in which it is exercised
        self.rng = rng              # consumes the random module
        self.exact = exact          # claims optimality
        self.cplex_only = cplex_only
        self.all_flag_ok = all_flag_ok   # return_at_most_one_ranking=False is a legal call
        self.family = family or name
        self.max_n = max_n


BOTH = ("absent", "standin")
CONFIGS = [
    Config("exact_default", lambda: ExactAlgorithm(), BOTH, exact=True, all_flag_ok=False, family="exact"),
    Config("exact_noopt", lambda: ExactAlgorithm(optimize=False), BOTH, exact=True, family="exact"),
    Config("exact_pulp", lambda: ExactAlgorithmPulp(), ("absent",), exact=True, family="exact"),
    Config("cplex_opt", lambda: ExactAlgorithmCplex(optimize=True), ("standin",), exact=True, cplex_only=True,
           all_flag_ok=False, family="exact"),
    Config("cplex_noopt", lambda: ExactAlgorithmCplex(optimize=False), ("standin",), exact=True, cplex_only=True,
           family="exact"),
    Config("cplex_paper", lambda: ExactAlgorithmCplexForPaperOptim1(), ("standin",), exact=True, cplex_only=True,
           family="exact"),
    Config("enum_exact", lambda: get_algorithm(Algorithm.EXACT), BOTH, exact=True, all_flag_ok=False, family="exact"),
    Config("enum_exact_noopt", lambda: get_algorithm(Algorithm.EXACT, {"optimize": False}), BOTH, exact=True,
           family="exact"),
    Config("parcons_default", lambda: ParCons(), BOTH, family="parcons"),
    Config("parcons_b2", lambda: ParCons(bound_for_exact=2), ("absent",), family="parcons"),
    Config("enum_parcons", lambda: get_algorithm(Algorithm.PARCONS), BOTH, family="parcons"),
    Config("enum_parcons_copeland_b2", lambda: get_algorithm(Algorithm.PARCONS, {
        "auxiliary_algorithm": CopelandMethod(), "bound_for_exact": 2}), BOTH, family="parcons"),
    Config("parcons_kwik_b2", lambda: ParCons(auxiliary_algorithm=KwikSortRandom(), bound_for_exact=2), BOTH, rng=True,
           family="parcons"),
    Config("parcons_bioco_b0", lambda: ParCons(auxiliary_algorithm=BioCo(), bound_for_exact=0), ("absent",),
           family="parcons"),
    Config("parcons_copeland_b3", lambda: ParCons(auxiliary_algorithm=CopelandMethod(), bound_for_exact=3), BOTH,
           family="parcons"),
    Config("parcons_borda_b0", lambda: ParCons(auxiliary_algorithm=BordaCount(), bound_for_exact=0), ("absent",),
           family="parcons"),
    Config("bioconsert", lambda: BioConsert(), family="bioconsert"),
    Config("enum_bioconsert", lambda: get_algorithm(Algorithm.BIOCONSERT), family="bioconsert"),
    Config("enum_bioconsert_borda", lambda: get_algorithm(Algorithm.BIOCONSERT, {
        "starting_algorithms": [BordaCount()]}), family="bioconsert"),
    Config("bioconsert_copeland", lambda: BioConsert([CopelandMethod()]), family="bioconsert"),
    Config("bioconsert_kwik", lambda: BioConsert([KwikSortRandom()]), rng=True, family="bioconsert"),
    Config("bioconsert_borda_pick", lambda: BioConsert([BordaCount(), PickAPerm()]), family="bioconsert"),
    Config("bioconsert_kwik_cop_borda", lambda: BioConsert([KwikSortRandom(), CopelandMethod(), BordaCount(True)]),
           rng=True, family="bioconsert"),
    Config("bioco", lambda: BioCo(), family="bioconsert"),
    Config("enum_bioco", lambda: get_algorithm(Algorithm.BIOCO), family="bioconsert"),
    Config("kwiksort", lambda: KwikSortRandom(), rng=True, family="kwiksort"),
    Config("enum_kwiksort", lambda: get_algorithm(Algorithm.KWIKSORTRANDOM), rng=True, family="kwiksort"),
    Config("borda", lambda: BordaCount(), family="borda"),
    Config("borda_bucket", lambda: BordaCount(use_bucket_id=True), family="borda"),
    Config("enum_borda", lambda: get_algorithm(Algorithm.BORDACOUNT), family="borda"),
    Config("enum_borda_bucket", lambda: get_algorithm(Algorithm.BORDACOUNT, {"use_bucket_id": True}), family="borda"),
    Config("copeland", lambda: CopelandMethod(), family="copeland"),
    Config("enum_copeland", lambda: get_algorithm(Algorithm.COPELANDMETHOD), family="copeland"),
    Config("pickaperm", lambda: PickAPerm(), family="pickaperm"),
    Config("enum_pickaperm", lambda: get_algorithm(Algorithm.PICKAPERM), family="pickaperm"),
]
BY_NAME = {c.name: c for c in CONFIGS}
# (config, env) pairs
PAIRS = [(c.name, e) for c in CONFIGS for e in c.envs]
# sizes the stand-in solver handles comfortably
STANDIN_MAX_N = 6


def run(config_name, env, dataset, scheme, at_most_one, rng_seed=0):
    """returns ('ok', consensus, algorithm) | ('refused', exception, algorithm) ; other exceptions propagate"""
    cfg = BY_NAME[config_name]
    with solver_env(env):
        alg = cfg.factory()
        random.seed(rng_seed)
        try:
            cons = alg.compute_consensus_rankings(dataset, scheme, at_most_one)
        except REFUSALS as e:
            return "refused", e, alg
        except IncompatibleArgumentsException as e:
            return "usage", e, alg
        return "ok", cons, alg
