"""
Shared Hypothesis strategies.  Everything drawn is plain JSON-serialisable data:
  scheme  = [[b0..b5], [t0..t5]]  (floats)
  dataset = list of rankings; ranking = list of buckets; bucket = list of element names (int | str), in the
            order in which the members are inserted into the Python set handed to the library.
All strategies are constructive (no assume / filter on the hot path).
"""
from hypothesis import strategies as st

# ----------------------------------------------------------------------------------------------
# scoring schemes
DYADIC = [0.0, 0.0625, 0.125, 0.25, 0.5, 0.75, 1.0, 1.5, 2.0, 3.0, 5.0]
DYADIC_POS = [x for x in DYADIC if x > 0]
DECIMAL = [0.0, 0.1, 0.3, 1.0 / 3.0, 0.7, 1.1, 1.0, 2.2, 0.45]
DECIMAL_POS = [x for x in DECIMAL if x > 0]

PRESETS = {
    "unifying": [[0., 1., 1., 0., 1., 1.], [1., 1., 0., 1., 1., 0.]],
    "pseudodistance": [[0., 1., 1., 0., 1., 0.], [1., 1., 0., 1., 1., 0.]],
    "induced": [[0., 1., 1., 0., 0., 0.], [1., 1., 0., 0., 0., 0.]],
    "extended": [[0., 1., 0., 0., 0., 0.], [1., 1., 0., 1., 1., 1.]],
    "unifying_half": [[0., 1., .5, 0., 1., .5], [.5, .5, 0., .5, .5, 0.]],
    "pseudodistance_half": [[0., 1., .5, 0., 1., 0.], [.5, .5, 0., .5, .5, 0.]],
    "induced_half": [[0., 1., .5, 0., 0., 0.], [.5, .5, 0., 0., 0., 0.]],
}
DYADIC_FACTORS = [0.5, 1.0, 2.0, 3.0]


def scale(scheme, k):
    return [[x * k for x in scheme[0]], [x * k for x in scheme[1]]]


@st.composite
def free_schemes(draw, values=DYADIC, pos=DYADIC_POS):
    v = st.sampled_from(values)
    b1 = draw(st.sampled_from(pos))
    b2 = draw(v)
    b3, b4 = sorted([draw(v), draw(v)])
    b5 = draw(v)
    t0 = draw(v)
    t3 = draw(v)
    t5 = draw(v)
    return [[0.0, b1, b2, b3, b4, b5], [t0, t0, 0.0, t3, t3, t5]]


@st.composite
def sparse_schemes(draw):
    """zero-heavy schemes: every free penalty is 0 half of the time (B[1] stays positive, B[3] <= B[4]); whole families
    of placements then cost the same, so exact score ties between different rankings are the rule, not the exception"""
    v = st.sampled_from([0.0, 0.0, 0.0, 0.5, 1.0, 2.0])
    b1 = draw(st.sampled_from([0.5, 1.0, 2.0]))
    b2 = draw(v)
    b3, b4 = sorted([draw(v), draw(v)])
    b5 = draw(v)
    t0 = draw(v)
    t3 = draw(v)
    t5 = draw(v)
    return [[0.0, b1, b2, b3, b4, b5], [t0, t0, 0.0, t3, t3, t5]]


@st.composite
def wide_range_schemes(draw):
    """one penalty family dwarfs the others: B[1] (and possibly B[4]) in the hundreds or thousands, the tie and
    missing-element penalties of the order of 1 - valid, exactly summable, and any threshold expressed relatively to
    B[1] (or any normalisation by it) is off by three orders of magnitude for the small ones"""
    big = draw(st.sampled_from([256.0, 1024.0, 4096.0]))
    v = st.sampled_from([0.0, 0.5, 1.0, 2.0, 3.0])
    b2 = draw(v)
    b4 = draw(st.sampled_from([0.0, 1.0, 3.0, big]))
    b3 = min(draw(v), b4)
    return [[0.0, big, b2, b3, b4, draw(v)], [draw(v)] * 2 + [0.0] + [draw(v)] * 2 + [draw(v)]]


@st.composite
def preset_multiples(draw, names=None):
    name = draw(st.sampled_from(sorted(PRESETS) if names is None else names))
    k = draw(st.sampled_from(DYADIC_FACTORS))
    return scale(PRESETS[name], k)


@st.composite
def near_presets(draw, names=None):
    """a preset (times a dyadic factor) with exactly one free entry changed, keeping validity"""
    base = draw(preset_multiples(names))
    b, t = list(base[0]), list(base[1])
    where = draw(st.sampled_from(["b2", "b3", "b4", "b5", "t0", "t3", "t5"]))
    nv = draw(st.sampled_from(DYADIC))
    if where == "b2":
        b[2] = nv
    elif where == "b3":
        b[3] = min(nv, b[4])
    elif where == "b4":
        b[4] = max(nv, b[3])
    elif where == "b5":
        b[5] = nv
    elif where == "t0":
        t[0] = t[1] = nv
    elif where == "t3":
        t[3] = t[4] = nv
    else:
        t[5] = nv
    return [b, t]


@st.composite
def tie_averse_schemes(draw):
    """tying costs at least as much as an inversion: Condorcet-like cycles then form components that cannot be all
    tied (the non-trivial case for the exact / partitioning algorithms)"""
    v = st.sampled_from(DYADIC)
    b1 = draw(st.sampled_from([0.25, 0.5, 1.0]))
    t0 = draw(st.sampled_from([x for x in DYADIC if x >= b1]))
    b2 = draw(v)
    b3, b4 = sorted([draw(v), draw(v)])
    t3 = draw(v)
    return [[0.0, b1, b2, b3, b4, draw(v)], [t0, t0, 0.0, t3, t3, draw(v)]]


@st.composite
def p_family_schemes(draw):
    """the three parametrised families of the library (unifying, pseudo-distance, induced measure) with a drawn cost p
    of creating / breaking a tie, from very cheap ties (p = 1/16) to dear ones (p = 2), times a dyadic factor"""
    p = draw(st.sampled_from([0.0625, 0.125, 0.25, 0.25, 0.5, 0.75, 1.0, 1.5, 2.0]))
    fam = draw(st.sampled_from(["unifying", "unifying", "pseudodistance", "induced"]))
    if fam == "unifying":
        s = [[0., 1., p, 0., 1., p], [p, p, 0., p, p, 0.]]
    elif fam == "pseudodistance":
        s = [[0., 1., p, 0., 1., 0.], [p, p, 0., p, p, 0.]]
    else:
        s = [[0., 1., p, 0., 0., 0.], [p, p, 0., 0., 0., 0.]]
    return scale(s, draw(st.sampled_from(DYADIC_FACTORS)))


EXTREME_FACTORS = [2.0 ** -30, 2.0 ** -20, 2.0 ** -10, 2.0 ** 10, 2.0 ** 20]


@st.composite
def scaled_schemes(draw):
    """a dyadic scheme times a large or tiny power of two: still exactly representable (so exact oracles apply), but
    every ABSOLUTE tolerance or threshold in the code under test is now far off the scale of the penalties"""
    base = draw(st.one_of(free_schemes(), preset_multiples(), tie_averse_schemes()))
    return scale(base, draw(st.sampled_from(EXTREME_FACTORS)))


def dyadic_schemes():
    """exactly representable penalties: every library comparison is decided on exact values"""
    return st.one_of(free_schemes(), free_schemes(), preset_multiples(), near_presets(), free_schemes(),
                     preset_multiples(), scaled_schemes(), p_family_schemes(), sparse_schemes(), wide_range_schemes())


def decimal_schemes():
    return free_schemes(DECIMAL, DECIMAL_POS)


def any_schemes():
    return st.one_of(free_schemes(), free_schemes(), preset_multiples(), near_presets(), decimal_schemes(),
                     free_schemes(), preset_multiples(), scaled_schemes(), p_family_schemes(), sparse_schemes(), wide_range_schemes())


def scheme_labels(s):
    b, t = s
    labs = []
    from vlib.lib import is_dyadic
    dy = is_dyadic(s)
    labs.append("scheme:dyadic" if dy else "scheme:decimal")
    if b[5] != t[5]:
        labs.append("scheme:B5!=T5")
    if b[3] < b[4]:
        labs.append("scheme:B3<B4")
    if t[3] > 0:
        labs.append("scheme:T3>0")
    if t[0] == 0:
        labs.append("scheme:T0=0")
    if b[2] == 0:
        labs.append("scheme:B2=0")
    return labs


# ----------------------------------------------------------------------------------------------
# element names
STR_POOL_SIMPLE = ["a", "b", "c", "d", "e", "f", "g", "h", "i", "j", "k", "l", "m", "n", "o", "p"]
STR_POOL_ODD = ["x y", "A-1", "b.2", "é", "ab", "a b", "z_9", "Q!", "q?", "u/v", "a1", "1a", "w;", "k=k", "ü ü", "N°"]
INT_POOLS = {
    "dense": list(range(0, 16)),
    "dense1": list(range(1, 17)),
    "mult8": [8 * i for i in range(16)],
    "mult32": [32 * i for i in range(16)],
    "negs": [-1, -2, 0, 1, 2, -3, 3, 7, -8, 8, 15, 16, -16, 31, 32, 64],
    # pairs of ints with EQUAL hashes in CPython: hash(-1) == hash(-2), hash(k) == hash(k + 2**61 - 1)
    "collide": [-1, -2, 0, 2 ** 61 - 1, 1, 2 ** 61, 2, 2 ** 61 + 1, 3, 2 ** 61 + 2, 4, 2 ** 61 + 3, 5, 2 ** 61 + 4, 6,
                2 ** 61 + 5],
    "big": [2 ** 61 - 1, 2 ** 61 - 2, 2 ** 61, 2 ** 61 + 1, 10 ** 12, 10 ** 12 + 8, 2 ** 31, 2 ** 31 - 1, 2 ** 63, 5, 13,
            21, 29, 37, 45, 53],
}


# names whose text contains the separators of the notation next to the names they are made of: str() of a ranking is
# not injective on them ("Doe, Jane" alone prints like the tie of "Doe" and "Jane"; "x}, {y" like two buckets)
COMPOSITE_POOL = ["Doe", "Jane", "Doe, Jane", "x", "y", "x}, {y", "a", "b", "a, b", "x}, {y}, {Doe", "Jane, a", "y, x",
                  "b}, {a", "c", "c, c", "Doe}, {Jane"]
MIXED_STR_POOL = ["1", "2", "3", "4", "10", "5", "b", "6", "7", "8", "9", "11", "c", "12", "13", "14"]


def _pool(kind, n):
    """at least n distinct names of the given kind (the hand-picked pools hold 16; more are derived)"""
    if kind == "mixedstr":
        pool = list(MIXED_STR_POOL)
        k = 15
        while len(pool) < n:
            pool.append(str(k))
            k += 1
        return pool
    if kind == "composite":
        return list(COMPOSITE_POOL) + ["n%d" % i for i in range(max(0, n - len(COMPOSITE_POOL)))]
    if kind == "str":
        pool = list(STR_POOL_SIMPLE)
    elif kind == "strodd":
        pool = list(STR_POOL_ODD)
    else:
        pool = list(INT_POOLS[kind])
    k = 0
    while len(pool) < n:
        if isinstance(pool[0], str):
            cand = "%s%s" % (STR_POOL_SIMPLE[k % 16], STR_POOL_SIMPLE[(k // 16 + 1) % 16]) + ("" if kind == "str" else " x")
        elif kind in ("mult8", "mult32"):
            cand = (8 if kind == "mult8" else 32) * (16 + k)
        elif kind == "negs":
            cand = -(20 + k)
        elif kind == "collide":
            cand = (7 + k // 2) if k % 2 == 0 else (2 ** 61 + 6 + k // 2)
        elif kind == "big":
            cand = 2 ** 61 + 100 + 8 * k
        else:
            cand = 17 + k
        if cand not in pool:
            pool.append(cand)
        k += 1
    return pool


@st.composite
def element_names(draw, n, kinds=("dense", "dense1", "mult8", "mult32", "negs", "big", "str", "strodd", "mixedstr",
                                  "collide", "composite")):
    kind = draw(st.sampled_from(kinds))
    pool = _pool(kind, n)
    if kind == "composite":
        # keep the composed names next to their parts: a prefix of the pool, in a drawn order
        return kind, list(draw(st.permutations(pool[:max(n, min(3, len(pool)))])))[:n]
    if kind == "collide":
        # keep colliding partners together: the first names of the pool, in a drawn order
        k = max(2, n + (n % 2))
        return kind, list(draw(st.permutations(pool[:k])))[:n]
    if kind == "mixedstr":
        # string names of which most are integer-like; the name "a" is always part of the dataset (datasets() sees to
        # it), so the dataset keeps strings, while many of its sub-problems hold integer-like names only
        perm = draw(st.permutations(pool))
        return kind, (["a"] + list(perm[:max(0, n - 1)]))[:max(1, n)]
    perm = draw(st.permutations(pool))
    return kind, list(perm[:n])


# ----------------------------------------------------------------------------------------------
# rankings
@st.composite
def weak_order_of(draw, elements, tie_p=None):
    """random ranking with ties over exactly `elements` (list)"""
    if not elements:
        return []
    perm = draw(st.permutations(elements))
    n = len(perm)
    ties = draw(st.lists(st.booleans(), min_size=n - 1, max_size=n - 1)) if n > 1 else []
    out = [[perm[0]]]
    for i in range(1, n):
        if ties[i - 1]:
            out[-1].append(perm[i])
        else:
            out.append([perm[i]])
    return out


@st.composite
def perturb(draw, base, nmoves):
    """a few adjacent swaps / merges / splits of a base ranking (same domain)"""
    r = [list(b) for b in base]
    for _ in range(nmoves):
        if not r:
            break
        op = draw(st.integers(0, 2))
        i = draw(st.integers(0, len(r) - 1))
        if op == 0 and i + 1 < len(r):          # swap adjacent buckets
            r[i], r[i + 1] = r[i + 1], r[i]
        elif op == 1 and i + 1 < len(r):        # merge
            r[i] = r[i] + r[i + 1]
            del r[i + 1]
        elif op == 2 and len(r[i]) > 1:         # split first element off
            j = draw(st.integers(0, len(r[i]) - 1))
            e = r[i].pop(j)
            if draw(st.booleans()):
                r.insert(i, [e])
            else:
                r.insert(i + 1, [e])
    return r


SHAPES = ["complete", "incomplete", "sparse_block", "near_unanimous", "identical", "near_unanimous_incomplete",
          "cyclic", "cyclic_incomplete", "block_cyclic", "cyclic_ties", "mixture", "floaters", "camps", "singletons", "clones", "runs", "splits"]
BASE_SHAPES = SHAPES[:9]
# not in SHAPES (thousands of rankings are too heavy for the generic checks): a few distinct ballots with large
# multiplicities, i.e. large scores with small absolute differences between candidates
EXTRA_SHAPES = ["election", "large_uniform"]


@st.composite
def datasets(draw, max_n=7, max_m=5, min_n=1, shapes=None, kinds=None, allow_empty_rankings=True,
             allow_duplicates=True, many="small"):
    """returns dict(rankings=..., shape=..., kind=...).  many: how far the 'many rankings' extension may go - "small"
    (6-19 rankings), "byte" (also 257 / 300), "thousand" (also 1001); the larger ones are for callers whose cost is
    linear in the number of rankings (PickAPerm, for one, is quadratic)"""
    shape = draw(st.sampled_from(shapes or SHAPES))
    # sampled_from is uniform (st.integers is biased to small values); it still shrinks towards the smallest size
    n = draw(st.sampled_from(list(range(min_n, max_n + 1))))
    m = draw(st.sampled_from(list(range(1, max_m + 1))))
    if kinds is None:
        kind, names = draw(element_names(n))
    else:
        kind, names = draw(element_names(n, kinds))
    n = len(names)
    rankings = []
    if shape == "complete":
        for _ in range(m):
            rankings.append(draw(weak_order_of(names)))
    elif shape == "clones":
        # classes of interchangeable elements: the members of a class are tied together wherever they are ranked and
        # missing together elsewhere (identical rows of the position matrix); classes of different sizes, often more
        # clones than classes
        k = draw(st.sampled_from([1, 2, 2, 3, 3]))
        k = min(k, n)
        sizes = [1] * k
        for _ in range(n - k):
            sizes[draw(st.integers(0, k - 1))] += 1
        classes, pos = [], 0
        for sz in sizes:
            classes.append(names[pos:pos + sz])
            pos += sz
        for _ in range(m):
            mask = draw(st.lists(st.sampled_from([True, True, False]), min_size=k, max_size=k))
            dom = [ci for ci, keep in enumerate(mask) if keep]
            rankings.append([[e for ci in b for e in classes[ci]] for b in draw(weak_order_of(dom))])
    elif shape == "runs":
        # a few distinct rankings, each repeated 1-4 times IN A ROW (runs of identical consecutive rankings)
        for _ in range(draw(st.sampled_from([2, 2, 3]))):
            mask = draw(st.lists(st.sampled_from([True, True, True, False]), min_size=n, max_size=n))
            r = draw(weak_order_of([e for e, keep in zip(names, mask) if keep]))
            for _ in range(draw(st.sampled_from([1, 2, 3, 3, 4]))):
                rankings.append([list(b) for b in r])
    elif shape == "fence":
        # pairwise comparisons (rankings of two elements) forming a k-fence: u_i before l_i, l_i before u_j (j != i);
        # the u's and the l's are not compared among themselves.  Fences (k >= 3, at least 6 elements) are the smallest
        # majority structures on which the LINEAR RELAXATION of the ordering problem has a fractional optimum
        k = min(3, n // 2) if n < 8 else draw(st.sampled_from([3, 4]))
        us, ls, rest = names[:k], names[k:2 * k], names[2 * k:]
        if k == 0:
            rankings.append([[names[0]]])
        w = draw(st.sampled_from([1, 1, 2]))
        for i in range(k):
            for _ in range(w):
                rankings.append([[us[i]], [ls[i]]])
            for j in range(k):
                if j != i:
                    rankings.append([[ls[i]], [us[j]]])
        for e in rest:
            if k:
                rankings.append([[e], [draw(st.sampled_from(names[:2 * k]))]])
        for _ in range(draw(st.integers(0, 2))):                      # a few extra comparisons
            a, b = draw(st.lists(st.sampled_from(names), min_size=2, max_size=2, unique=True)) if n >= 2 else (names[0],) * 2
            if a != b:
                rankings.append([[a], [b]])
    elif shape == "splits":
        # approval-style ballots: every ranking splits the elements into a top bucket and a bottom bucket; a split and
        # its reverse are often both present.  With cheap ties many of them are exactly as good as one another
        for _ in range(max(2, m)):
            mask = draw(st.lists(st.booleans(), min_size=n, max_size=n))
            top = [e for e, k in zip(names, mask) if k]
            bot = [e for e, k in zip(names, mask) if not k]
            r = [b for b in (top, bot) if b]
            rankings.append(r)
            if draw(st.booleans()):
                rankings.append([list(b) for b in reversed(r)])
    elif shape == "singletons":
        # every ranking ranks one element (sometimes two): the all-tied ranking is then hard to beat
        for _ in range(max(m, 2)):
            k = draw(st.sampled_from([1, 1, 1, 2]))
            rankings.append(draw(weak_order_of(list(draw(st.permutations(names)))[:k])))
    elif shape == "incomplete":
        for _ in range(m):
            mask = draw(st.lists(st.booleans(), min_size=n, max_size=n))
            dom = [e for e, k in zip(names, mask) if k]
            rankings.append(draw(weak_order_of(dom)))
    elif shape == "sparse_block":
        nb = draw(st.integers(1, min(3, n)))
        cuts = sorted(draw(st.lists(st.integers(1, max(1, n - 1)), min_size=nb - 1, max_size=nb - 1)))
        blocks, prev = [], 0
        for c in cuts + [n]:
            if c > prev:
                blocks.append(names[prev:c])
                prev = c
        for _ in range(m):
            chosen = draw(st.lists(st.booleans(), min_size=len(blocks), max_size=len(blocks)))
            dom = []
            for blk, k in zip(blocks, chosen):
                if k:
                    # most of the block
                    keep = draw(st.lists(st.integers(0, 3), min_size=len(blk), max_size=len(blk)))
                    dom.extend(e for e, q in zip(blk, keep) if q > 0)
            rankings.append(draw(weak_order_of(dom)))
    elif shape in ("near_unanimous", "near_unanimous_incomplete"):
        base = draw(weak_order_of(names))
        for _ in range(m):
            r = draw(perturb(base, draw(st.integers(0, 3))))
            if shape.endswith("incomplete"):
                drop = draw(st.lists(st.integers(0, 3), min_size=n, max_size=n))
                gone = {e for e, q in zip(names, drop) if q == 0}
                r = [[e for e in b if e not in gone] for b in r]
                r = [b for b in r if b]
            rankings.append(r)
    elif shape == "cyclic_ties":
        # a Condorcet cycle plus rankings that tie (blocks of) the same elements: inside the component every strict
        # order loses to some tie although no pair alone prefers the tie strictly - the case where an exact algorithm
        # must really weigh ties against orders
        base = list(draw(st.permutations(names)))
        step = draw(st.sampled_from([1, 1, 2]))
        for k in range(max(2, min(m, 4))):
            sh = (k * step) % n
            rankings.append([[e] for e in base[sh:] + base[:sh]])
        for _ in range(draw(st.integers(1, 3))):
            tied = draw(weak_order_of(names))
            tied = draw(perturb(tied, 0))
            # merge most buckets
            while len(tied) > 1 and draw(st.integers(0, 3)) > 0:
                i = draw(st.integers(0, len(tied) - 2))
                tied[i] = tied[i] + tied[i + 1]
                del tied[i + 1]
            rankings.append(tied)
    elif shape == "mixture":
        # rankings of two different shapes over the same names
        for sub in (draw(st.sampled_from(BASE_SHAPES)), draw(st.sampled_from(BASE_SHAPES))):
            part = draw(datasets(max_n=n, max_m=max(1, max_m // 2), min_n=n, shapes=[sub], kinds=(kind,),
                                 allow_empty_rankings=False, allow_duplicates=False))
            # same size => element_names drew a permutation of the same pool prefix? not necessarily: rename
            pu = sorted({e for r in part["rankings"] for b in r for e in b}, key=lambda v: (str(type(v)), v))
            ren = {e: names[i % n] for i, e in enumerate(pu)}
            rankings.extend([[[ren[e] for e in b] for b in r] for r in part["rankings"]])
    elif shape == "camps":
        # two or three 'camps': a base ranking and variants of it (an element jumps far away, a tie is made or broken),
        # each repeated the same number of times or so. Pairwise costs are then often exactly EQUAL (before == after,
        # before == tied): the regime in which strict / non-strict comparisons of costs decide partitions, placements
        # and pruning rules
        base = draw(weak_order_of(names))
        camps = [base]
        for _ in range(draw(st.sampled_from([1, 1, 2]))):
            v = [list(b) for b in camps[draw(st.integers(0, len(camps) - 1))]]
            for _ in range(draw(st.sampled_from([1, 1, 2]))):
                op = draw(st.integers(0, 2))
                if op == 0 and len(v) >= 2:          # long jump of one element
                    i = draw(st.integers(0, len(v) - 1))
                    e = v[i].pop(draw(st.integers(0, len(v[i]) - 1)))
                    v = [b for b in v if b]
                    j = draw(st.integers(0, len(v)))
                    if draw(st.booleans()) and j < len(v):
                        v[j].append(e)
                    else:
                        v.insert(j, [e])
                else:
                    v = draw(perturb(v, 1))
            camps.append(v)
        reps = draw(st.sampled_from([1, 2, 2, 3]))
        for c in camps:
            k = reps if draw(st.integers(0, 3)) else draw(st.sampled_from([1, 2, 3]))
            for _ in range(k):
                rankings.append([list(b) for b in c])
        if draw(st.integers(0, 2)) == 0:
            drop = draw(st.lists(st.integers(0, 4), min_size=n, max_size=n))
            i = draw(st.integers(0, len(rankings) - 1))
            gone = {e for e, q in zip(names, drop) if q == 0}
            rankings[i] = [b2 for b2 in ([e for e in b if e not in gone] for b in rankings[i]) if b2]
    elif shape == "election":
        # 'many voters, few candidates, close contest': 3-5 unrelated ballots (mostly strict orders) with large,
        # nearly equal multiplicities
        ballots = []
        for _ in range(draw(st.sampled_from([3, 4, 4, 5]))):
            b = [[e] for e in draw(st.permutations(names))]
            if draw(st.integers(0, 4)) == 0:
                b = draw(perturb(b, 1))
            ballots.append(b)
        big = draw(st.sampled_from([200, 400, 400, 500]))
        for idx, r in enumerate(ballots):
            k = draw(st.sampled_from([big, big, big + 1, big - 1, 2 * big, big // 2]))
            for _ in range(k):
                rankings.append([list(b) for b in r])
    elif shape == "large_uniform":
        # as many rankings as elements, all unrelated strict orders: scores in the thousands
        m = draw(st.sampled_from(list(range(max(8, n - 5), n + 6))))
        for _ in range(m):
            rankings.append([[e] for e in draw(st.permutations(names))])
    elif shape == "floaters":
        # a structured core (some base shape over the first names) plus one or two 'floating' elements that are only
        # co-ranked with a few elements of the core, inside a cycle with them: incomparable with most of the core, yet
        # in a component with part of it - partitions must merge across apparently robust frontiers
        nf = 1 if n < 5 else draw(st.sampled_from([1, 2]))
        core, floats = names[:max(1, n - nf)], names[max(1, n - nf):]
        part = draw(datasets(max_n=len(core), max_m=max(2, max_m - 2), min_n=len(core),
                             shapes=[draw(st.sampled_from(["near_unanimous", "block_cyclic", "cyclic", "identical",
                                                           "complete"]))],
                             kinds=(kind,), allow_empty_rankings=False, allow_duplicates=False))
        pu = sorted({e for r in part["rankings"] for b in r for e in b}, key=lambda v: (str(type(v)), v))
        ren = {e: core[i % len(core)] for i, e in enumerate(pu)}
        rankings.extend([[[ren[e] for e in b] for b in r] for r in part["rankings"]])
        for f in floats:
            mates = list(draw(st.permutations(core)))[:draw(st.sampled_from([1, 2, 2, 3]))]
            grp = mates + [f]
            step = 1
            for k in range(draw(st.sampled_from([1, 2, 3, 3]))):
                sh = (k * step) % len(grp)
                r = [[e] for e in grp[sh:] + grp[:sh]]
                r = draw(perturb(r, draw(st.sampled_from([0, 0, 1]))))
                rankings.append(r)
    elif shape == "block_cyclic":
        # 2-3 blocks in a common order; inside a block every ranking uses a rotation (cycle); a ranking may skip whole
        # blocks: several components, some of them hard, and rankings that miss a whole component
        nb = draw(st.integers(1, min(3, n)))
        if n >= 9:
            # many elements: three to five blocks of at least three elements (three or more hard components at once)
            # (blocks of 3 or 4 elements: a 9-element cyclic block in front of the cplex-less exact algorithm takes minutes)
            nb = n // 3
            sizes = [3 + (1 if i < n - 3 * nb else 0) for i in range(nb)]
            cuts = [sum(sizes[:i]) for i in range(1, nb)]
        else:
            cuts = sorted(draw(st.lists(st.integers(1, max(1, n - 1)), min_size=nb - 1, max_size=nb - 1)))
        blocks, prev = [], 0
        for c in cuts + [n]:
            if c > prev:
                blocks.append(names[prev:c])
                prev = c
        m = max(m, 3)
        step = draw(st.sampled_from([1, 1, 2]))
        for k in range(m):
            r = []
            for blk in blocks:
                if draw(st.integers(0, 3)) == 0:
                    continue
                sh = (k * step) % len(blk)
                rot = blk[sh:] + blk[:sh]
                part = draw(perturb([[e] for e in rot], draw(st.sampled_from([0, 0, 1]))))
                r.extend(part)
            rankings.append(r)
    elif shape in ("cyclic", "cyclic_incomplete"):
        # rotations of a base order: Condorcet-like cycles, i.e. large strongly connected components
        base = list(draw(st.permutations(names)))
        m = max(m, 3)
        step = draw(st.sampled_from([1, 1, 2]))
        # either every ranking is rotated one step further, or most rankings agree and some are rotated by one of two
        # fixed shifts (an element or two jump from one end to the other: split majorities on those pairs only)
        few = draw(st.booleans())
        shifts = [0, draw(st.integers(1, max(1, n - 1))), draw(st.integers(1, max(1, n - 1)))]
        for k in range(m):
            sh = (shifts[draw(st.sampled_from([0, 0, 1, 1, 2]))] if few else (k * step)) % n
            rot = base[sh:] + base[:sh]
            r = [[e] for e in rot]
            r = draw(perturb(r, draw(st.sampled_from([0, 0, 1, 2]))))
            if shape.endswith("incomplete"):
                drop = draw(st.lists(st.integers(0, 3), min_size=n, max_size=n))
                gone = {e for e, q in zip(names, drop) if q == 0}
                r = [[e for e in b if e not in gone] for b in r]
                r = [b for b in r if b]
            rankings.append(r)
    else:  # identical
        base = draw(weak_order_of(names))
        rankings = [[list(b) for b in base] for _ in range(m)]
    if allow_duplicates and rankings and draw(st.integers(0, 5)) == 0:
        i = draw(st.integers(0, len(rankings) - 1))
        rankings.append([list(b) for b in rankings[i]])
    if allow_duplicates and rankings and draw(st.integers(0, 9)) == 0:
        # many rankings (numbers of rankings m for which m * (1/m) != 1.0 in floating point are among them)
        target = draw(st.sampled_from([6, 7, 10, 13, 15, 19] + ([19, 257, 300] if many != "small" else []) +
                                      ([1001] if many == "thousand" else [])))
        if target == 1001:
            # more than a thousand rankings, the first three and the last three tying every element: every row of the
            # position matrix starts and ends alike (arrays of more than 1000 entries are PRINTED "a b c ... x y z")
            core = [[list(b) for b in r] for _ in range(-(-995 // len(rankings))) for r in rankings]
            tied = [list(names)]
            rankings = [[list(b) for b in tied] for _ in range(3)] + core + [[list(b) for b in tied] for _ in range(3)]
        elif target >= 257:
            # hundreds of rankings (more than a byte, more than the small ints CPython shares): the whole list repeated
            rankings = [[list(b) for b in r] for _ in range(-(-target // len(rankings))) for r in rankings]
        while len(rankings) < target:
            i = draw(st.integers(0, len(rankings) - 1))
            rankings.append([list(b) for b in rankings[i]])
    if allow_empty_rankings and draw(st.integers(0, 5)) == 0:
        i = draw(st.integers(0, len(rankings)))
        rankings.insert(i, [])
    # at least one element overall (the library refuses an element-free dataset: documented)
    if not any(b for r in rankings for b in r):
        rankings[0] = [[names[0]]]
    if kind == "mixedstr" and not any("a" in b for r in rankings for b in r):
        rankings.append([["a"]])
    # optionally make first-appearance order unrelated to ranking order: put a shuffled sub-ranking first
    if draw(st.integers(0, 3)) == 0:
        i = draw(st.integers(0, len(rankings) - 1))
        rankings[0], rankings[i] = rankings[i], rankings[0]
    return {"rankings": rankings, "shape": shape, "kind": kind}


def dataset_labels(ds):
    from vlib import oracle
    rankings = ds["rankings"]
    univ = oracle.universe(rankings)
    n = len(univ)
    labs = ["shape:" + ds.get("shape", "?"), "kind:" + ds.get("kind", "?"), "n:%d" % n,
            "m:%d" % len(rankings)]
    complete = all(sum(len(b) for b in r) == n for r in rankings)
    labs.append("complete" if complete else "incomplete")
    if any(len(b) > 1 for r in rankings for b in r):
        labs.append("ties")
    if any(len(r) == 0 for r in rankings):
        labs.append("empty_ranking")
    cs = [oracle.canon(r) for r in rankings]
    if len(set(cs)) < len(cs):
        labs.append("duplicate")
    return labs


def is_complete(rankings):
    from vlib import oracle
    n = len(oracle.universe(rankings))
    return all(sum(len(b) for b in r) == n for r in rankings)


def has_ties(rankings):
    return any(len(b) > 1 for r in rankings for b in r)


@st.composite
def candidates(draw, univ, foreign=None):
    """random ranking with ties over the universe (+ optional foreign elements)"""
    els = list(univ)
    if foreign:
        els = els + list(foreign)
    return draw(weak_order_of(els))


def large_datasets():
    """datasets well beyond the sizes of the generic checks (size-dependent code paths, large scores): 'election'
    (few ballots, multiplicities in the hundreds), 'large_uniform' (20-30 strict orders of 18-30 elements) and large
    incomplete datasets with ties"""
    return st.one_of(
        datasets(max_n=8, min_n=5, max_m=4, shapes=["election"], kinds=("dense", "str"), allow_empty_rankings=False,
                 allow_duplicates=False),
        datasets(max_n=30, min_n=18, max_m=4, shapes=["large_uniform"], kinds=("dense", "mult8", "str"),
                 allow_empty_rankings=False, allow_duplicates=False),
        datasets(max_n=26, min_n=14, max_m=16, shapes=["incomplete", "near_unanimous_incomplete", "sparse_block",
                                                       "complete", "cyclic_incomplete"],
                 kinds=("dense", "negs", "str")))
