"""
Adapter between plain-data cases and corankco objects (this is the only place, with the check modules, where
corankco is imported).  Also: classification of exceptions (library fault vs harness fault).
"""
import io
import os
import sys
import traceback
import contextlib

REPO = os.environ.get("VERIF_REPO", "/repo")
VERIF = os.path.dirname(os.path.dirname(os.path.abspath(__file__)))

import corankco  # noqa: E402  (PYTHONPATH puts REPO first)
from corankco.dataset import Dataset, EmptyDatasetException  # noqa: E402
from corankco.ranking import Ranking  # noqa: E402
from corankco.element import Element  # noqa: E402
from corankco.scoringscheme import ScoringScheme  # noqa: E402
from corankco.consensus import Consensus, ConsensusFeature  # noqa: E402
from corankco.kemeny_score_computation import KemenyComputingFactory, InvalidRankingsForComputingDistance  # noqa

assert os.path.realpath(os.path.dirname(corankco.__file__)).startswith(os.path.realpath(REPO)), \
    "corankco imported from %s, not from %s" % (corankco.__file__, REPO)


class Violation(Exception):
    """the property under check does not hold on this case"""


class HarnessError(Exception):
    """the checker itself is broken (never reported as a VIOLATION)"""


def make_set(bucket):
    """a Python set built by inserting the members in the given order"""
    s = set()
    for e in bucket:
        s.add(e)
    return s


def raw_ranking(model_ranking):
    return [make_set(b) for b in model_ranking]


def raw_ranking_list(rankings):
    return [raw_ranking(r) for r in rankings]


def mk_ranking(model_ranking):
    return Ranking(raw_ranking(model_ranking))


def mk_dataset(rankings, name=""):
    return Dataset.from_raw_list([raw_ranking(r) for r in rankings], name=name)


def mk_scheme(scheme):
    return ScoringScheme([list(scheme[0]), list(scheme[1])])


def raw(e):
    """Element -> raw python value; checks it is an Element"""
    if not isinstance(e, Element):
        raise Violation("object %r of type %s found where an Element is expected" % (e, type(e).__name__))
    return e.value


def model_of_ranking(r):
    """library Ranking -> model ranking (list of lists of raw values, members sorted for determinism)"""
    out = []
    for b in r.buckets:
        out.append(sorted((raw(e) for e in b), key=lambda v: (str(type(v)), v)))
    return out


def model_of_dataset(d):
    return [model_of_ranking(r) for r in d.rankings]


def normalize_name(e, all_int):
    return int(str(e)) if all_int else str(e)


def int_like(e):
    return isinstance(e, int) or (isinstance(e, str) and e.isdecimal() and e != "")


def normalized(rankings):
    """what the dataset is documented to hold: ints when every name is integer-like, else strings"""
    all_int = all(int_like(e) for r in rankings for b in r for e in b)
    out = []
    for r in rankings:
        rr = []
        for b in r:
            bb = []
            for e in b:
                v = normalize_name(e, all_int)
                if v not in bb:          # two spellings of one integer ("7", "007", 7) are one element
                    bb.append(v)
            rr.append(bb)
        out.append(rr)
    return out


@contextlib.contextmanager
def quiet():
    """the parser prints on errors; keep worker stdout clean"""
    buf = io.StringIO()
    with contextlib.redirect_stdout(buf):
        yield buf


# ----------------------------------------------------------------------------------------------
def innermost_owner(tb):
    """('lib'|'harness'|'other', 'file:function:line') of the deepest frame that belongs to corankco or to /verif"""
    owner, where = "other", "?"
    repo_pkg = os.path.realpath(os.path.join(REPO, "corankco"))
    verif = os.path.realpath(VERIF)
    for fs in traceback.extract_tb(tb):
        fn = os.path.realpath(fs.filename)
        if fn.startswith(repo_pkg):
            owner, where = "lib", "%s:%s" % (os.path.relpath(fn, repo_pkg), fs.name)
        elif fn.startswith(verif):
            owner, where = "harness", "%s:%s:%d" % (os.path.relpath(fn, verif), fs.name, fs.lineno)
    return owner, where


def call(fn, *args, allowed=(), **kwargs):
    """call library code; an exception whose class is in `allowed` is returned as ('exc', e); any other exception
    raised from inside corankco becomes a Violation (undocumented failure mode).  Returns ('ok', value) otherwise."""
    try:
        with quiet():
            return "ok", fn(*args, **kwargs)
    except allowed as e:  # documented refusal
        return "exc", e
    except (Violation, HarnessError):
        raise
    except Exception as e:  # noqa
        owner, where = innermost_owner(sys.exc_info()[2])
        if owner in ("lib", "other"):
            raise Violation("undocumented exception %s: %s  [at %s]" % (type(e).__name__, str(e)[:200], where)) from e
        raise


def must(fn, *args, **kwargs):
    st, v = call(fn, *args, **kwargs)
    return v


def approx_equal(x, fr, tol=1e-6):
    """library float x vs exact Fraction fr"""
    try:
        xf = float(x)
    except Exception:
        return False
    if xf != xf:
        return False
    f = float(fr)
    return abs(xf - f) <= tol * max(1.0, abs(f))


def is_dyadic(scheme):
    # exactly summable: every penalty is an integer multiple of one power of two g, with penalty / g < 2**26 (sums of
    # up to 2**26 such terms are exact in float64) - true for the quarter/sixteenth grids and for their products with
    # any power of two
    from fractions import Fraction
    vals = [Fraction(x) for x in list(scheme[0]) + list(scheme[1]) if x != 0]
    if not vals:
        return True
    den = max(v.denominator for v in vals)
    if den & (den - 1):
        return False
    ints = [int(v * den) for v in vals]
    low = min((i & -i) for i in ints)          # largest power of two dividing all of them
    return max(ints) // low < 2 ** 26


def check_score(x, fr, scheme, what):
    """exact equality for dyadic schemes, 1e-9 relative otherwise"""
    if x is None:
        raise Violation("%s is None" % what)
    if is_dyadic(scheme):
        ok = (float(x) == float(fr))
    else:
        ok = approx_equal(x, fr, 1e-9)
    if not ok:
        raise Violation("%s = %r but the definition gives %s (= %r)" % (what, x, fr, float(fr)))
