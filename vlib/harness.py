"""
Sharded driver for the property checks.

  parent  (run_check.py)  : spawns N worker processes (own PYTHONHASHSEED each), aggregates, writes evidence,
                            writes replay files, prints VIOLATION / KNOWN-FINDING lines, sets the exit status.
  worker  (python -m vlib.harness worker ...) : imports checks.<id>, runs its sub-checks for one shard.

Exit status of run_check.py: 0 property held on everything explored; 1 violation (with VIOLATION line);
2 harness error (never a VIOLATION line).
"""
import hashlib
import json
import os
import re
import subprocess
import sys
import time
import traceback
from collections import Counter

VERIF = os.path.dirname(os.path.dirname(os.path.abspath(__file__)))
REPO = os.environ.get("VERIF_REPO", "/repo")
WORK = os.path.join(VERIF, ".work")
NSHARDS_DEFAULT = 16


def digest(obj):
    return hashlib.blake2b(json.dumps(obj, sort_keys=True, default=str).encode(), digest_size=6).hexdigest()


def derive_seed(*parts):
    h = hashlib.blake2b("/".join(str(p) for p in parts).encode(), digest_size=8).digest()
    return int.from_bytes(h, "big") % (2 ** 31 - 1) + 1


# ------------------------------------------------------------------------------------------------
class Stats:
    def __init__(self):
        self.evaluations = 0
        self.labels = Counter()
        self.nontrivial = set()
        self.samples_nt = []
        self.samples_any = []
        self.excluded_known = 0
        self.extra = {}

    def case(self, case, nontrivial=False, labels=()):
        """record one explored case"""
        self.evaluations += 1
        for lab in labels:
            self.labels[lab] += 1
        if nontrivial:
            self.labels["nontrivial"] += 1
            d = digest(case)
            if d not in self.nontrivial:
                self.nontrivial.add(d)
                if len(self.samples_nt) < 2:
                    self.samples_nt.append(case)
        elif len(self.samples_any) < 1:
            self.samples_any.append(case)

    def label(self, *labs):
        for lab in labs:
            self.labels[lab] += 1

    def dump(self):
        return {"evaluations": self.evaluations, "labels": dict(self.labels), "nontrivial": sorted(self.nontrivial),
                "samples": self.samples_nt + self.samples_any, "excluded_known": self.excluded_known,
                "extra": self.extra}


class Ctx:
    def __init__(self, prop, tier, seed, shard, nshards, deadline):
        self.prop, self.tier, self.seed, self.shard, self.nshards = prop, tier, seed, shard, nshards
        self.deadline = deadline
        self.stats = Stats()
        self.last_failure = None
        self.budget_hit = False

    def out_of_time(self):
        if time.time() > self.deadline:
            self.budget_hit = True
            return True
        return False


# ------------------------------------------------------------------------------------------------
class Sub:
    """one sub-check of a property"""
    kind = "abstract"

    def __init__(self, name, fn, quick=0, thorough=0):
        self.name, self.fn = name, fn
        self.budget = {"quick": quick, "thorough": thorough}


class HypSub(Sub):
    """fn(case, ctx) over cases drawn from strategy(tier)"""
    kind = "hyp"

    def __init__(self, name, strategy, fn, quick, thorough):
        super().__init__(name, fn, quick, thorough)
        self.strategy = strategy


class EnumSub(Sub):
    """fn(case, ctx) over every case of enumerate(tier) (a finite, deterministic iterable); sharded by index"""
    kind = "enum"

    def __init__(self, name, enumerate_fn, fn):
        super().__init__(name, fn)
        self.enumerate_fn = enumerate_fn


class MachineSub(Sub):
    """Hypothesis RuleBasedStateMachine.  machine_factory(ctx, tier) returns the machine class; the class must keep
    `self.history` (JSON-able) and call ctx-aware recording itself.  fn(history, ctx) replays a history."""
    kind = "machine"

    def __init__(self, name, machine_factory, fn, quick, thorough, steps_quick=12, steps_thorough=25):
        super().__init__(name, fn, quick, thorough)
        self.machine_factory = machine_factory
        self.steps = {"quick": steps_quick, "thorough": steps_thorough}


class CustomSub(Sub):
    """run(ctx) does whatever it wants (e.g. drives atheris); must call ctx.stats.case and raise Violation"""
    kind = "custom"

    def __init__(self, name, run, fn=None):
        super().__init__(name, fn)
        self.run = run


# ------------------------------------------------------------------------------------------------
def _classify(exc, tb):
    from vlib import lib
    if isinstance(exc, lib.Violation):
        return "violation", str(exc)
    if isinstance(exc, lib.HarnessError):
        return "harness", str(exc)
    owner, where = lib.innermost_owner(tb)
    if owner == "lib":
        return "violation", "undocumented exception %s: %s  [at %s]" % (type(exc).__name__, str(exc)[:200], where)
    return "harness", "%s: %s [at %s]\n%s" % (type(exc).__name__, exc, where,
                                               "".join(traceback.format_exception(type(exc), exc, tb))[-3000:])


CASE_TIMEOUT_S = float(os.environ.get("VERIF_CASE_TIMEOUT_S", "150"))
_HB = {"file": None}


def _heartbeat(sub, case):
    """remember the case being run (for the parent, should this process hang inside compiled code) and (re)arm the
    C-level watchdog, which needs no GIL: no result within CASE_TIMEOUT_S => traceback dump + process exit"""
    f = _HB["file"]
    if f is None:
        return
    import faulthandler
    try:
        f.seek(0)
        f.write(json.dumps({"sub": sub.name, "case": case}, default=str))
        f.truncate()
        f.flush()
    except Exception:  # noqa
        pass
    faulthandler.dump_traceback_later(CASE_TIMEOUT_S, exit=True)


def _disarm():
    """the watchdog only covers the execution of one case: it is disarmed between sub-checks (a custom sub-check such
    as the atheris campaign runs for minutes without going through _guard and has its own time-out)"""
    try:
        import faulthandler
        faulthandler.cancel_dump_traceback_later()
    except Exception:  # noqa
        pass


def _guard(sub, ctx, case):
    """run fn on one case, recording the failure for the replay file"""
    _heartbeat(sub, case)
    try:
        sub.fn(case, ctx)
        _disarm()
    except BaseException as e:  # noqa
        if isinstance(e, (KeyboardInterrupt, SystemExit)):
            raise
        kind, msg = _classify(e, sys.exc_info()[2])
        ctx.last_failure = {"sub": sub.name, "case": case, "kind": kind, "message": msg}
        raise


def run_sub(sub, ctx):
    """returns a failure dict or None"""
    import hypothesis
    from hypothesis import given, settings, HealthCheck, Phase, seed as hseed
    ctx.last_failure = None
    tier = ctx.tier
    _disarm()
    try:
        if sub.kind == "hyp":
            n = max(1, -(-sub.budget[tier] // ctx.nshards))
            st = sub.strategy(tier)

            def test(case):
                if ctx.out_of_time():
                    return
                _guard(sub, ctx, case)

            test = given(st)(test)
            test = hseed(derive_seed(ctx.seed, ctx.prop, sub.name, ctx.shard))(test)
            test = settings(max_examples=n, database=None, deadline=None, derandomize=False,
                            report_multiple_bugs=False, print_blob=False,
                            suppress_health_check=[HealthCheck.too_slow, HealthCheck.data_too_large],
                            phases=[Phase.generate, Phase.shrink])(test)
            test()
        elif sub.kind == "enum":
            for i, case in enumerate(sub.enumerate_fn(tier)):
                if i % ctx.nshards != ctx.shard:
                    continue
                if ctx.out_of_time():
                    break
                _guard(sub, ctx, case)
        elif sub.kind == "machine":
            from hypothesis.stateful import run_state_machine_as_test
            n = max(1, -(-sub.budget[tier] // ctx.nshards))
            machine = sub.machine_factory(ctx, tier)
            machine = hseed(derive_seed(ctx.seed, ctx.prop, sub.name, ctx.shard))(machine)
            run_state_machine_as_test(machine, settings=settings(
                max_examples=n, stateful_step_count=sub.steps[tier], database=None, deadline=None,
                derandomize=False, report_multiple_bugs=False, print_blob=False,
                suppress_health_check=[HealthCheck.too_slow, HealthCheck.data_too_large,
                                       HealthCheck.filter_too_much],
                phases=[Phase.generate, Phase.shrink]))
        elif sub.kind == "custom":
            sub.run(ctx)
        _disarm()
        return None
    except BaseException as e:  # noqa
        _disarm()
        if isinstance(e, (KeyboardInterrupt, SystemExit)):
            raise
        if ctx.last_failure is not None:
            f = dict(ctx.last_failure)
            if type(e).__name__ in ("Flaky", "FlakyFailure", "FlakyStrategyDefinition", "FlakyReplay"):
                f["flaky"] = True
            return f
        kind, msg = _classify(e, sys.exc_info()[2])
        return {"sub": sub.name, "case": None, "kind": "harness" if kind != "violation" else kind, "message": msg}


def load_checks(prop):
    import importlib
    mod = importlib.import_module("checks." + prop.lower())
    return mod


def replay_one(prop, path_or_obj, ctx=None):
    """re-run the failing case of a replay file; returns None if it passes, else a failure dict"""
    obj = path_or_obj
    if isinstance(obj, str):
        with open(obj) as f:
            obj = json.load(f)
    mod = load_checks(prop)
    subs = {s.name: s for s in mod.subchecks()}
    sub = subs.get(obj["sub"])
    if sub is None or sub.fn is None:
        return {"sub": obj.get("sub"), "case": obj.get("case"), "kind": "harness",
                "message": "unknown sub-check %r in replay file" % obj.get("sub")}
    if ctx is None:
        ctx = Ctx(prop, "quick", 0, 0, 1, time.time() + 3600)
    try:
        sub.fn(obj["case"], ctx)
        return None
    except BaseException as e:  # noqa
        if isinstance(e, (KeyboardInterrupt, SystemExit)):
            raise
        kind, msg = _classify(e, sys.exc_info()[2])
        return {"sub": sub.name, "case": obj["case"], "kind": kind, "message": msg}


def _linecov_start():
    """audit aid (tools/linecov.py): with VERIF_LINECOV=<dir> every worker records which lines of the library it
    executed (sys.monitoring, each line reported once); numba-compiled kernels are invisible to it"""
    if not os.environ.get("VERIF_LINECOV") or not hasattr(sys, "monitoring"):
        return None
    root = os.path.realpath(os.path.join(os.environ.get("VERIF_REPO", "/repo"), "corankco")) + os.sep
    seen = set()
    mon = sys.monitoring

    def on_line(code, line):
        fn = code.co_filename
        if fn.startswith(root):
            seen.add((fn[len(root):], line))
        return mon.DISABLE
    mon.use_tool_id(mon.COVERAGE_ID, "verif-linecov")
    mon.register_callback(mon.COVERAGE_ID, mon.events.LINE, on_line)
    mon.set_events(mon.COVERAGE_ID, mon.events.LINE)
    return seen


def _linecov_dump(seen, prop, shard):
    if seen is None:
        return
    d = os.environ["VERIF_LINECOV"]
    os.makedirs(d, exist_ok=True)
    with open(os.path.join(d, "cov_%s_%d.json" % (prop, shard)), "w") as f:
        json.dump(sorted(seen), f)


def worker_main(argv):
    prop, tier, seed, shard, nshards, budget_s, out = argv[0], argv[1], int(argv[2]), int(argv[3]), int(argv[4]), \
        float(argv[5]), argv[6]
    only = argv[7] if len(argv) > 7 and argv[7] else None
    t0 = time.time()
    result = {"shard": shard, "subs": {}, "failures": [], "regressions_run": 0}
    _HB["file"] = open(out + ".hb", "w")
    cov = _linecov_start()
    try:
        mod = load_checks(prop)
        subs = mod.subchecks()
        if only:
            subs = [s for s in subs if s.name in only.split(",")]
        # regressions first (shard 0 only)
        if shard == 0 and not only:
            rdir = os.path.join(VERIF, "regressions", prop)
            if os.path.isdir(rdir):
                for fn in sorted(os.listdir(rdir)):
                    if fn.endswith(".json"):
                        f = replay_one(prop, os.path.join(rdir, fn))
                        result["regressions_run"] += 1
                        if f is not None:
                            f["regression"] = fn
                            result["failures"].append(f)
        if hasattr(mod, "setup_worker"):
            mod.setup_worker()
        nsub = len(subs)
        for k, sub in enumerate(subs):
            # each sub-check gets a fair share of what is left of the budget
            left = budget_s - (time.time() - t0)
            share = max(5.0, left / (nsub - k))
            ctx = Ctx(prop, tier, seed, shard, nshards, time.time() + share)
            ts = time.time()
            f = run_sub(sub, ctx)
            d = ctx.stats.dump()
            d["wall_s"] = round(time.time() - ts, 2)
            d["budget_hit"] = ctx.budget_hit
            d["kind"] = sub.kind
            result["subs"][sub.name] = d
            if f is not None:
                result["failures"].append(f)
    except BaseException as e:  # noqa
        result["failures"].append({"sub": None, "case": None, "kind": "harness",
                                   "message": "worker crashed: " + "".join(
                                       traceback.format_exception(type(e), e, e.__traceback__))[-4000:]})
    try:
        import faulthandler
        faulthandler.cancel_dump_traceback_later()
    except Exception:  # noqa
        pass
    result["wall_s"] = round(time.time() - t0, 2)
    _linecov_dump(cov, prop, shard)
    tmp = out + ".tmp"
    with open(tmp, "w") as f:
        json.dump(result, f, default=str)
    os.replace(tmp, out)


# ------------------------------------------------------------------------------------------------
def python_exe():
    for p in ("/venv/bin/python",):
        if os.path.exists(p):
            return p
    return sys.executable


def child_env(seed, shard):
    env = dict(os.environ)
    deps = os.path.join(VERIF, ".deps")
    env["PYTHONPATH"] = os.pathsep.join([REPO, VERIF, deps, "/verif/.deps"])
    env["PYTHONHASHSEED"] = str(derive_seed(seed, "hash", shard) % 4294967295)
    env["NUMBA_CACHE_DIR"] = os.path.join(WORK, "numba_cache")
    env["PYTHONDONTWRITEBYTECODE"] = "1"
    env["VERIF_REPO"] = REPO
    env.setdefault("OMP_NUM_THREADS", "1")
    env.setdefault("NUMBA_NUM_THREADS", "1")
    env.setdefault("OPENBLAS_NUM_THREADS", "1")
    env["CORANKCO_VERIF"] = "1"
    return env


def load_known():
    p = os.path.join(VERIF, "known_findings.json")
    if not os.path.exists(p):
        return []
    with open(p) as f:
        return json.load(f).get("entries", [])


def match_known(prop, failure, known):
    for k in known:
        if k.get("status") != "known" or k.get("property") != prop:
            continue
        sig = k.get("signature", {})
        if sig.get("sub") and sig["sub"] != failure.get("sub"):
            continue
        if sig.get("message_regex") and not re.search(sig["message_regex"], failure.get("message", "")):
            continue
        return k
    return None


def validate_evidence(ev):
    schema_path = "/root/.vp/EVIDENCE.schema.json"
    try:
        import jsonschema
        if os.path.exists(schema_path):
            with open(schema_path) as f:
                jsonschema.validate(ev, json.load(f))
            return
    except ImportError:
        pass
    c = ev["coverage"]
    assert isinstance(c["evaluations"], int) and c["evaluations"] >= 1
    assert isinstance(c["distinct_nontrivial"], int) and c["distinct_nontrivial"] >= 2, \
        "distinct_nontrivial=%r" % c["distinct_nontrivial"]
    assert isinstance(c["rule"], str) and isinstance(c["samples"], list) and len(c["samples"]) >= 1
    assert ev["tier"] in ("quick", "thorough") and isinstance(ev["seed"], int)


def abbreviate(obj, limit=1500):
    s = json.dumps(obj, default=str)
    if len(s) <= limit:
        return obj
    return {"abbreviated": s[:limit] + "..."}


def parent_main(prop, tier, seed, nshards=NSHARDS_DEFAULT, only=None, budget_s=None, verbose=False):
    t0 = time.time()
    os.makedirs(WORK, exist_ok=True)
    os.makedirs(os.path.join(WORK, "numba_cache"), exist_ok=True)
    os.makedirs(os.path.join(VERIF, "evidence"), exist_ok=True)
    os.makedirs(os.path.join(VERIF, "replays"), exist_ok=True)
    # import the check module in the parent only for its metadata
    sys.path[:0] = [REPO, VERIF]
    meta_env = child_env(seed, 0)
    meta = subprocess.run([python_exe(), "-c",
                           "import json,checks.%s as m; print(json.dumps(m.META))" % prop.lower()],
                          env=meta_env, cwd=VERIF, capture_output=True, text=True)
    if meta.returncode != 0:
        print("HARNESS-ERROR property=%s cannot import check module:\n%s" % (prop, meta.stderr[-3000:]))
        return 2
    META = json.loads(meta.stdout.strip().splitlines()[-1])
    if budget_s is None:
        budget_s = float(os.environ.get("VERIF_BUDGET_S", META.get("budget_s", {}).get(tier, 120 if tier == "quick" else 900)))
    run_id = "%s-%s-%d-%d" % (prop, tier, seed, os.getpid())
    outdir = os.path.join(WORK, run_id)
    os.makedirs(outdir, exist_ok=True)
    procs = []
    for k in range(nshards):
        out = os.path.join(outdir, "shard%d.json" % k)
        cmd = [python_exe(), "-m", "vlib.harness", "worker", prop, tier, str(seed), str(k), str(nshards),
               str(budget_s), out, only or ""]
        log = open(os.path.join(outdir, "shard%d.log" % k), "w")
        procs.append((k, out, subprocess.Popen(cmd, env=child_env(seed, k), cwd=VERIF, stdout=log,
                                                stderr=subprocess.STDOUT), log))
    hard_limit = budget_s * 3 + 300
    results, harness_errors = [], []
    for k, out, p, log in procs:
        try:
            p.wait(timeout=max(10, hard_limit - (time.time() - t0)))
        except subprocess.TimeoutExpired:
            p.kill()
            harness_errors.append("shard %d exceeded the hard limit of %.0fs and was killed" % (k, hard_limit))
        log.close()
        if os.path.exists(out):
            with open(out) as f:
                results.append(json.load(f))
        else:
            with open(os.path.join(outdir, "shard%d.log" % k)) as f:
                logtail = f.read()[-2500:]
            hb = None
            try:
                with open(out + ".hb") as f:
                    hb = json.load(f)
            except Exception:  # noqa
                pass
            if hb is not None and "Timeout (" in logtail:
                # the C-level watchdog fired: a single case did not return within CASE_TIMEOUT_S
                results.append({"shard": k, "subs": {}, "regressions_run": 0, "failures": [{
                    "sub": hb["sub"], "case": hb["case"], "kind": "violation",
                    "message": "no result within %.0f s on this case (hang); innermost frames: %s" % (
                        CASE_TIMEOUT_S, " | ".join(ln.strip() for ln in logtail.splitlines()
                                                   if ln.strip().startswith("File"))[:600])}]})
            else:
                harness_errors.append("shard %d wrote no result (rc=%s): %s" % (k, p.returncode, logtail))

    # ---- aggregate
    evaluations = 0
    nontrivial = set()
    labels = Counter()
    per_sub = {}
    samples = []
    failures = []
    budget_hit = False
    regressions_run = 0
    excluded_known = 0
    for r in results:
        regressions_run += r.get("regressions_run", 0)
        for name, d in r["subs"].items():
            ps = per_sub.setdefault(name, {"evaluations": 0, "nontrivial": set(), "wall_s_max": 0.0, "kind": d["kind"],
                                           "budget_hit": False, "extra": {}})
            ps["evaluations"] += d["evaluations"]
            ps["nontrivial"].update(d["nontrivial"])
            ps["wall_s_max"] = max(ps["wall_s_max"], d["wall_s"])
            ps["budget_hit"] = ps["budget_hit"] or d["budget_hit"]
            for kx, vx in d.get("extra", {}).items():
                if isinstance(vx, (int, float)):
                    ps["extra"][kx] = ps["extra"].get(kx, 0) + vx
                else:
                    ps["extra"][kx] = vx
            evaluations += d["evaluations"]
            nontrivial.update(name + ":" + x for x in d["nontrivial"])
            for lab, c in d["labels"].items():
                labels[name + "/" + lab] += c
            budget_hit = budget_hit or d["budget_hit"]
            excluded_known += d.get("excluded_known", 0)
            if len(samples) < 8:
                for s in d["samples"][:1]:
                    if sum(1 for x in samples if x["sub"] == name) < 2:
                        samples.append({"sub": name, "case": abbreviate(s)})
        failures.extend(r["failures"])

    known = load_known()
    violations, known_hits = [], []
    seen_sig = set()
    for f in failures:
        if f["kind"] == "harness":
            harness_errors.append("[%s] %s" % (f.get("sub"), f.get("message")))
            continue
        k = match_known(prop, f, known)
        if k is not None:
            known_hits.append((k, f))
            continue
        sig = (f.get("sub"), re.sub(r"[0-9]+", "#", f.get("message", ""))[:80])
        if sig in seen_sig:
            continue
        seen_sig.add(sig)
        violations.append(f)

    exit_code = 0
    lines = []
    for k, f in known_hits[:20]:
        lines.append("KNOWN-FINDING: property=%s %s" % (prop, k.get("what", "")))
    lines = sorted(set(lines))
    for f in violations[:6]:
        body = {"property": prop, "sub": f.get("sub"), "case": f.get("case"), "message": f.get("message"),
                "seed": seed, "tier": tier, "flaky": f.get("flaky", False), "regression": f.get("regression")}
        path = os.path.join(VERIF, "replays", "%s-%s.json" % (prop, digest(body["case"] if body["case"] is not None
                                                                               else body["message"])))
        with open(path, "w") as fh:
            json.dump(body, fh, indent=1, default=str)
        lines.append("VIOLATION property=%s replay=%s" % (prop, path))
        lines.append("  sub-check=%s  %s" % (f.get("sub"), (f.get("message") or "")[:600]))
        exit_code = 1

    # ---- generator-degeneracy floors
    floors = META.get("floors", {})
    if not only and not violations:
        for lab, frac in floors.items():
            sub = lab.split("/")[0]
            tot = per_sub.get(sub, {}).get("evaluations", 0)
            if tot > 50 and labels.get(lab, 0) < frac * tot:
                harness_errors.append("generator degenerate: label %s seen %d times in %d cases (floor %.0f%%)"
                                      % (lab, labels.get(lab, 0), tot, 100 * frac))

    ev = {
        "property_id": prop, "tier": tier, "seed": seed, "level": META.get("level", "exploration"),
        "coverage": {
            "evaluations": evaluations,
            "distinct_nontrivial": len(nontrivial),
            "rule": META["rule"],
            "samples": samples if samples else [{"note": "no sample recorded"}],
            "exhaustive": bool(META.get("exhaustive", {}).get(tier)),
            "exhaustive_subdomains": META.get("exhaustive", {}).get(tier) or [],
            "per_subcheck": {n: {"evaluations": d["evaluations"], "distinct_nontrivial": len(d["nontrivial"]),
                                 "kind": d["kind"], "slowest_shard_wall_s": d["wall_s_max"],
                                 "budget_reached": d["budget_hit"], **({"extra": d["extra"]} if d["extra"] else {})}
                             for n, d in per_sub.items()},
            "labels": dict(sorted(labels.items())),
            "shards": nshards, "budget_s_per_shard": budget_s, "budget_reached": budget_hit,
            "regressions_replayed": regressions_run, "excluded_known": excluded_known,
            "engine": META.get("engine", "hypothesis"),
        },
        "assumptions": META.get("assumptions", []),
        "wall_s": round(time.time() - t0, 2),
        "violations": len(violations),
    }
    try:
        if not only:
            validate_evidence(ev)
    except Exception as e:  # noqa
        harness_errors.append("evidence does not validate: %s" % str(e)[:500])
    if not only and os.path.realpath(REPO) == os.path.realpath("/repo"):
        # evidence is only written for runs against /repo itself (never for runs against a scratch copy / mutant)
        with open(os.path.join(VERIF, "evidence", prop + ".json"), "w") as f:
            json.dump(ev, f, indent=1, default=str)

    for ln in lines:
        print(ln)
    if harness_errors and exit_code == 0:
        for h in harness_errors[:5]:
            print("HARNESS-ERROR property=%s %s" % (prop, h[:3000]))
        exit_code = 2
    elif harness_errors:
        for h in harness_errors[:3]:
            print("note: harness error also seen: %s" % h[:800])
    print("%s %s seed=%d: %d evaluations, %d distinct non-trivial, %d violation(s), %.1fs%s" % (
        prop, tier, seed, evaluations, len(nontrivial), len(violations), time.time() - t0,
        " (budget reached: coverage is what was reached in time)" if budget_hit else ""))
    if verbose:
        for n, d in per_sub.items():
            print("   %-28s %8d eval %8d nontrivial  %.1fs%s" % (n, d["evaluations"], len(d["nontrivial"]),
                                                                  d["wall_s_max"], " BUDGET" if d["budget_hit"] else ""))
    # clean scratch
    try:
        import shutil
        if exit_code != 2:
            shutil.rmtree(outdir, ignore_errors=True)
    except Exception:  # noqa
        pass
    return exit_code


if __name__ == "__main__":
    if len(sys.argv) > 1 and sys.argv[1] == "worker":
        worker_main(sys.argv[2:])
    elif len(sys.argv) > 1 and sys.argv[1] == "replay":
        _prop, _path = sys.argv[2], sys.argv[3]
        _f = replay_one(_prop, _path)
        if _f is None:
            print("replay passes: the recorded case no longer fails (property=%s)" % _prop)
            sys.exit(0)
        if _f["kind"] == "violation":
            print("VIOLATION property=%s replay=%s" % (_prop, _path))
            print("  sub-check=%s  %s" % (_f.get("sub"), _f.get("message")))
            sys.exit(1)
        print("HARNESS-ERROR property=%s %s" % (_prop, _f.get("message")))
        sys.exit(2)
