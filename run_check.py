#!/usr/bin/env python3
"""
Entry point of every check registered in MANIFEST.json.

  run_check.py C07 [--tier quick|thorough] [--shards N] [--only sub1,sub2] [--budget SECONDS] [-v]
  run_check.py C07 --replay replays/C07-xxxx.json

Env: VERIF_SEED (default 1), VERIF_TIER (default quick), VERIF_BUDGET_S (overrides the per-shard time budget).
Exit: 0 held / 1 violation (prints `VIOLATION property=<id> replay=<path>`) / 2 harness error.
"""
import argparse
import json
import os
import subprocess
import sys

VERIF = os.path.dirname(os.path.abspath(__file__))
sys.path.insert(0, VERIF)

from vlib import harness  # noqa: E402


def main():
    ap = argparse.ArgumentParser()
    ap.add_argument("prop")
    ap.add_argument("--tier", default=os.environ.get("VERIF_TIER", "quick"), choices=["quick", "thorough"])
    ap.add_argument("--shards", type=int, default=int(os.environ.get("VERIF_SHARDS", harness.NSHARDS_DEFAULT)))
    ap.add_argument("--only", default=None)
    ap.add_argument("--budget", type=float, default=None)
    ap.add_argument("--replay", default=None)
    ap.add_argument("-v", "--verbose", action="store_true")
    a = ap.parse_args()
    prop = a.prop.upper()
    try:
        seed = int(os.environ.get("VERIF_SEED", "1"))
    except ValueError:
        seed = 1
    if a.replay:
        # replay in a child with the same environment as a worker
        env = harness.child_env(seed, 0)
        return subprocess.call([harness.python_exe(), "-m", "vlib.harness", "replay", prop,
                                os.path.abspath(a.replay)], env=env, cwd=VERIF)
    return harness.parent_main(prop, a.tier, seed, a.shards, a.only, a.budget, a.verbose)


if __name__ == "__main__":
    sys.exit(main())
