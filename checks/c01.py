"""C01 — Kemeny score equals the generalized pairwise-penalty definition."""
from itertools import product
from hypothesis import strategies as st
from vlib import gen, oracle, lib, mutate
from vlib.harness import HypSub, EnumSub
from vlib.lib import Violation
from corankco.dataset import Dataset
from corankco.ranking import Ranking

META = {
    "level": "exploration",
    "engine": "hypothesis + exhaustive small-scope enumeration",
    "rule": "cases = (scheme, dataset, candidate) drawn by Hypothesis (dyadic/preset/near-preset/decimal schemes; all "
            "dataset shapes incl. empty rankings, single element, int/str names; candidate over the universe or a "
            "superset) plus every dataset with n<=3 (quick: m<=2; thorough adds n=4,m<=2 and n=3,m=3) x every weak "
            "order of the universe (and universe+1 foreign element) under a base-16 'decoder' scheme that makes each "
            "of the count terms readable from the score. Non-trivial: n>=3, dataset incomplete, ties both in the "
            "candidate and in an input ranking, and >=6 of the 8 penalised (relation x status) cells have a non-zero "
            "count and a non-zero penalty. Distinct = distinct case digest.",
    "exhaustive": {"quick": ["all datasets n<=3,m<=2 x all candidates over universe and universe+1 (decoder scheme)"],
                   "thorough": ["all datasets n<=3,m<=3; n=4,m<=2 x all candidates over universe (+1 for n<=3)"]},
    "assumptions": ["oracle: direct transcription of the definition in exact integer arithmetic (vlib/oracle.py), "
                    "self-tested against a second naive transcription",
                    "decimal schemes compared with relative tolerance 1e-9; dyadic schemes compared exactly"],
    "budget_s": {"quick": 100, "thorough": 700},
    "floors": {"score_random/incomplete": 0.3, "score_random/cand:superset": 0.1},
}

# B = [0, 1, 16, 16^2, 16^3, 16^4], T = [16^5, 16^5, 0, 16^6, 16^6, 16^7]: counts < 16 are decoded exactly
DECODER = [[0.0, 1.0, 16.0, 256.0, 4096.0, 65536.0], [1048576.0, 1048576.0, 0.0, 16777216.0, 16777216.0, 268435456.0]]


def cells(cand, rankings):
    """counts of the 8 penalised cells: B1..B5, T0/1, T3/4, T5"""
    cb = oracle.bucket_index(cand)
    els = list(cb)
    c = [0] * 8
    for r in rankings:
        bi = oracle.bucket_index(r)
        for a in range(len(els)):
            for b in range(a + 1, len(els)):
                x, y = els[a], els[b]
                if cb[x] == cb[y]:
                    s = oracle.status(bi, x, y)
                    if s in (0, 1):
                        c[5] += 1
                    elif s in (3, 4):
                        c[6] += 1
                    elif s == 5:
                        c[7] += 1
                else:
                    if cb[x] > cb[y]:
                        x, y = y, x
                    s = oracle.status(bi, x, y)
                    if s >= 1:
                        c[s - 1] += 1
    return c


def foreign_for(univ, k):
    if all(isinstance(e, int) for e in univ):
        base = max([abs(e) for e in univ] + [0]) + 1000
        return [base + i for i in range(k)]
    return ["zz%d" % i for i in range(k)]


@st.composite
def score_cases(draw, tier):
    big = tier == "thorough"
    scheme = draw(gen.any_schemes())
    ds = draw(gen.datasets(max_n=12 if big else 8, max_m=8 if big else 5, many="thousand"))
    univ = oracle.universe(ds["rankings"])
    nf = draw(st.sampled_from([0, 0, 0, 1, 2]))
    cand = draw(gen.candidates(univ, foreign_for(univ, nf)))
    return {"scheme": scheme, "dataset": ds, "cand": cand, "superset": nf > 0,
            "via_mutation": draw(mutate.via_strategy(ds["rankings"], p=5))}


def check_score(case, ctx):
    # generation dominates the cost: the drawn scheme, then the base-16 'decoder' scheme (every count term weighs
    # differently, so any miscount shows whatever the drawn penalties are)
    check_score_one(case, ctx)
    if case.get("batched", True):
        c = dict(case)
        c["scheme"], c["batched"] = DECODER, False
        check_score_one(c, ctx)


def check_score_one(case, ctx):
    scheme, rankings, cand = case["scheme"], case["dataset"]["rankings"], case["cand"]
    s = lib.mk_scheme(scheme)
    kc = lib.KemenyComputingFactory(s)

    def warm(d0):
        # the SAME factory scores the dataset before its in-place mutation (candidate: everything tied)
        kc.get_kemeny_score(lib.mk_ranking([sorted({e.value for e in d0.universe} | {e for b in cand for e in b},
                                                   key=str)]), d0)
    d = mutate.build(rankings, case.get("via_mutation"), warm)
    c = lib.mk_ranking(cand)
    got = lib.must(kc.get_kemeny_score, c, d)
    inst = oracle.Instance(rankings, scheme)
    want = inst.score(cand)
    # labels / non-triviality
    n = inst.n
    incomplete = not gen.is_complete(rankings)
    cc = cells(cand, rankings)
    pens = [scheme[0][1], scheme[0][2], scheme[0][3], scheme[0][4], scheme[0][5], scheme[1][0], scheme[1][3],
            scheme[1][5]]
    live = sum(1 for k in range(8) if cc[k] > 0 and pens[k] > 0)
    nt = (n >= 3 and incomplete and gen.has_ties(rankings) and any(len(b) > 1 for b in cand) and live >= 6)
    ctx.stats.case(case, nt, gen.dataset_labels(case["dataset"]) + gen.scheme_labels(scheme) +
                   ["cand:superset" if case.get("superset") else "cand:universe", "live_cells:%d" % live])
    lib.check_score(got, want, scheme, "get_kemeny_score(%s)" % cand)


@st.composite
def refusal_cases(draw, tier):
    scheme = draw(gen.dyadic_schemes())
    ds = draw(gen.datasets(max_n=8, max_m=5, min_n=1))
    univ = oracle.universe(ds["rankings"])
    # drop >=1 element; put the dropped element(s) late in the dataset with some probability by choosing any subset
    mask = draw(st.lists(st.booleans(), min_size=len(univ), max_size=len(univ)))
    keep = [e for e, k in zip(univ, mask) if k]
    if len(keep) == len(univ):
        keep = keep[:-1] if draw(st.booleans()) else keep[1:]
    nf = draw(st.sampled_from([0, 0, 1]))
    cand = draw(gen.candidates(keep, foreign_for(univ, nf)))
    return {"scheme": scheme, "dataset": ds, "cand": cand}


def check_refusal(case, ctx):
    scheme, rankings, cand = case["scheme"], case["dataset"]["rankings"], case["cand"]
    d = lib.mk_dataset(rankings)
    s = lib.mk_scheme(scheme)
    c = lib.mk_ranking(cand)
    univ = oracle.universe(rankings)
    present = {e for b in cand for e in b}
    missing = [e for e in univ if e not in present]
    assert missing
    # the missing element only in the last ranking is the case the completeness loop could skip
    last_only = any(all(e not in {x for b in r for x in b} for r in rankings[:-1]) for e in missing)
    ctx.stats.case(case, len(univ) >= 2 and len(rankings) >= 2, ["missing_only_in_last_ranking"] if last_only else [])
    st_, v = lib.call(lib.KemenyComputingFactory(s).get_kemeny_score, c, d,
                      allowed=(lib.InvalidRankingsForComputingDistance,))
    if st_ == "ok":
        raise Violation("candidate %s lacks dataset element(s) %s but was scored (%r) instead of being refused"
                        % (cand, missing, v))
    if type(v) is not lib.InvalidRankingsForComputingDistance:
        raise Violation("refused with %s instead of InvalidRankingsForComputingDistance" % type(v).__name__)
    # the Consensus path must refuse as well (never report a score)
    cons = lib.Consensus([c], d, s)
    st2, v2 = lib.call(lambda: cons.kemeny_score, allowed=(lib.InvalidRankingsForComputingDistance,))
    if st2 == "ok":
        raise Violation("Consensus.kemeny_score returned %r for a candidate lacking %s" % (v2, missing))


@st.composite
def lazy_cases(draw, tier):
    scheme = draw(gen.any_schemes())
    ds = draw(gen.datasets(max_n=8, max_m=5))
    univ = oracle.universe(ds["rankings"])
    cands = [draw(gen.candidates(univ)) for _ in range(draw(st.integers(1, 3)))]
    return {"scheme": scheme, "dataset": ds, "cands": cands}


def check_lazy(case, ctx):
    scheme, rankings, cands = case["scheme"], case["dataset"]["rankings"], case["cands"]
    d = lib.mk_dataset(rankings)
    s = lib.mk_scheme(scheme)
    inst = oracle.Instance(rankings, scheme)
    cons = lib.Consensus([lib.mk_ranking(c) for c in cands], d, s)
    got = lib.must(lambda: cons.kemeny_score)
    ctx.stats.case(case, inst.n >= 3 and not gen.is_complete(rankings), gen.dataset_labels(case["dataset"]))
    lib.check_score(got, inst.score(cands[0]), scheme, "Consensus([%s,...]).kemeny_score" % cands[0])
    got2 = lib.must(lambda: cons.kemeny_score)
    if got2 != got:
        raise Violation("second read of kemeny_score gives %r after %r" % (got2, got))


# ------------------------------------------------------------------------------------------------
def sub_rankings(k):
    """all rankings with ties over all subsets of range(k)"""
    out = []
    for mask in range(1 << k):
        els = [i for i in range(k) if (mask >> i) & 1]
        for w in oracle.weak_orders(els):
            out.append(w)
    return out


def small_datasets(tier):
    r3 = sub_rankings(3)
    plans = [(3, 1), (3, 2)]
    if tier == "thorough":
        plans += [(3, 3), (4, 1), (4, 2)]
    for n, m in plans:
        rk = r3 if n == 3 else sub_rankings(4)
        for combo in product(range(len(rk)), repeat=m):
            rankings = [rk[i] for i in combo]
            if not any(b for r in rankings for b in r):
                continue
            yield {"rankings": rankings, "n": n, "m": m}


def check_small(case, ctx):
    rankings = case["rankings"]
    d = lib.mk_dataset(rankings)
    univ = oracle.universe(rankings)
    kc = lib.KemenyComputingFactory(lib.mk_scheme(DECODER))
    inst = oracle.Instance(rankings, DECODER)
    supers = [univ] + ([univ + [99]] if len(univ) <= 3 and case["n"] == 3 else [])
    for els in supers:
        for w in oracle.weak_orders(els):
            got = lib.must(kc.get_kemeny_score, lib.mk_ranking(w), d)
            want = inst.score(w)
            nt = len(univ) >= 3 and not gen.is_complete(rankings) and any(len(b) > 1 for b in w)
            ctx.stats.case({"rankings": rankings, "cand": w}, nt)
            if float(got) != float(want):
                raise Violation("decoder scheme: get_kemeny_score(%s) = %r, definition gives %s" % (w, got, want))


@st.composite
def large_cases(draw, tier):
    ds = draw(gen.large_datasets())
    univ = oracle.universe(ds["rankings"])
    return {"scheme": draw(gen.any_schemes()), "dataset": ds, "cand": draw(gen.candidates(univ)), "superset": False,
            "batched": True}


@st.composite
def reuse_cases(draw, tier):
    """ONE KemenyComputingFactory scoring several (dataset, candidate) pairs in sequence, each dataset object scored
    several times: every score must be the one a fresh factory / dataset gives"""
    scheme = draw(gen.any_schemes())
    items = []
    for _ in range(draw(st.sampled_from([2, 3, 4]))):
        ds = draw(gen.datasets(max_n=6, max_m=4))
        univ = oracle.universe(ds["rankings"])
        items.append({"dataset": ds, "cands": [draw(gen.candidates(univ, foreign_for(univ, draw(st.sampled_from([0, 0, 1])))))
                                               for _ in range(draw(st.sampled_from([1, 2, 3])))]})
    return {"scheme": scheme, "items": items, "order": draw(st.permutations(list(range(len(items)))))}


def check_reuse(case, ctx):
    scheme = case["scheme"]
    s = lib.mk_scheme(scheme)
    kc = lib.KemenyComputingFactory(s)
    objs = [lib.mk_dataset(it["dataset"]["rankings"]) for it in case["items"]]
    insts = [oracle.Instance(it["dataset"]["rankings"], scheme) for it in case["items"]]
    ctx.stats.case(case, len(case["items"]) >= 3, ["items:%d" % len(case["items"])])
    for rnd in range(2):
        for k in list(case["order"]) + list(reversed(case["order"])):
            for cand in case["items"][k]["cands"]:
                got = lib.must(kc.get_kemeny_score, lib.mk_ranking(cand), objs[k])
                lib.check_score(got, insts[k].score(cand), scheme,
                                "get_kemeny_score(%s) on dataset %d of a reused factory (pass %d)" % (cand, k, rnd))


@st.composite
def huge_cases(draw, tier):
    """tens of thousands of elements in a few classes: (bucket of the candidate, place in each of 1-3 input rankings).
    The expected score is a closed form over the class sizes (exact integers); the counters of the library see
    products of the order of 2**31 and more"""
    nb_c = draw(st.sampled_from([1, 2, 3]))
    m = draw(st.sampled_from([1, 2, 3]))
    classes = []
    for _ in range(draw(st.sampled_from([2, 3, 4]))):
        classes.append({"size": draw(st.sampled_from([1, 3, 1000, 40000, 50000, 70000])),
                        "cand": draw(st.integers(0, nb_c - 1)),
                        "places": [draw(st.sampled_from([None, 0, 0, 1])) for _ in range(m)]})
    classes.append({"size": draw(st.sampled_from([50000, 70000, 100000])), "cand": draw(st.integers(0, nb_c - 1)),
                    "places": [draw(st.sampled_from([None, None, 0])) for _ in range(m)]})
    if not any(c["places"][j] is not None for c in classes for j in range(m)):
        classes[0]["places"][0] = 0
    return {"classes": classes, "scheme": draw(st.one_of(gen.free_schemes(), gen.preset_multiples()))}


def check_huge(case, ctx):
    classes, scheme = case["classes"], case["scheme"]
    m = len(classes[0]["places"])
    # elements: consecutive ints per class
    start, members = 0, []
    for c in classes:
        members.append(range(start, start + c["size"]))
        start += c["size"]
    nb_c = max(c["cand"] for c in classes) + 1
    cand = [set() for _ in range(nb_c)]
    for c, mem in zip(classes, members):
        cand[c["cand"]].update(mem)
    cand = [b for b in cand if b]
    rankings = []
    for j in range(m):
        buckets = [set(), set()]
        for c, mem in zip(classes, members):
            if c["places"][j] is not None:
                buckets[c["places"][j]].update(mem)
        rankings.append([b for b in buckets if b])
    # renumber candidate buckets / places after dropping empty ones
    def cand_pos(c):
        return sorted({k["cand"] for k in classes}).index(c["cand"])

    def place(c, j):
        if c["places"][j] is None:
            return None
        used = sorted({k["places"][j] for k in classes if k["places"][j] is not None})
        return used.index(c["places"][j])
    sc = oracle.Scaled(scheme)
    total = 0
    for a in range(len(classes)):
        for b in range(a, len(classes)):
            ca, cb = classes[a], classes[b]
            npairs = ca["size"] * cb["size"] if a != b else ca["size"] * (ca["size"] - 1) // 2
            if npairs == 0:
                continue
            for j in range(m):
                pa, pb = place(ca, j), place(cb, j)
                if cand_pos(ca) == cand_pos(cb):
                    if pa is None and pb is None:
                        st_ = 5
                    elif pa is None or pb is None:
                        st_ = 3
                    else:
                        st_ = 2 if pa == pb else 0
                    total += npairs * sc.T[st_]
                else:
                    (fa, fpa), (fb, fpb) = ((ca, pa), (cb, pb)) if cand_pos(ca) < cand_pos(cb) else ((cb, pb), (ca, pa))
                    if fpa is None and fpb is None:
                        st_ = 5
                    elif fpb is None:
                        st_ = 3
                    elif fpa is None:
                        st_ = 4
                    else:
                        st_ = 0 if fpa < fpb else (1 if fpa > fpb else 2)
                    total += npairs * sc.B[st_]
    want = sc.to_fraction(total)
    n = sum(c["size"] for c in classes)
    ctx.stats.case(case, n >= 90000, ["n>=90000" if n >= 90000 else "n<90000", "m:%d" % m])
    d = Dataset([Ranking(r) for r in rankings])
    got = lib.must(lib.KemenyComputingFactory(lib.mk_scheme(scheme)).get_kemeny_score, Ranking(cand), d)
    if abs(float(got) - float(want)) > 1e-9 * max(1.0, abs(float(want))):
        raise Violation("classes %s: get_kemeny_score = %r, the definition (closed form over the class sizes) gives %s"
                        % ([(c["size"], c["cand"], c["places"]) for c in classes], got, want))


def subchecks():
    return [
        HypSub("score_random", score_cases, check_score, quick=12000, thorough=200000),
        HypSub("score_refusal", refusal_cases, check_refusal, quick=1500, thorough=30000),
        HypSub("consensus_lazy", lazy_cases, check_lazy, quick=1500, thorough=30000),
        HypSub("factory_reuse", reuse_cases, check_reuse, quick=1500, thorough=20000),
        HypSub("score_huge_classes", huge_cases, check_huge, quick=48, thorough=400),
        HypSub("score_large", large_cases, check_score, quick=400, thorough=5000),
        EnumSub("small_scope", small_datasets, check_small),
    ]
