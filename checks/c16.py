"""C16 — Ranking/Dataset views stay consistent through every construction and mutation."""
import random
import sys
from collections import Counter
from fractions import Fraction
import numpy as np
from hypothesis import strategies as st
from hypothesis.stateful import RuleBasedStateMachine, rule, initialize, precondition
from vlib import gen, lib, configs, oracle, harness
from vlib.harness import MachineSub, HypSub
from vlib.lib import Violation
from corankco.dataset import Dataset, EmptyDatasetException
from corankco.ranking import Ranking
from corankco.element import Element

META = {
    "level": "exploration",
    "engine": "hypothesis stateful (reference model of the dataset) + hypothesis @given for every Ranking source",
    "rule": "(a) every Ranking source - constructor from raw int/str/Element buckets, from_string, generate_rankings, "
            "uniform_permutations, unified_rankings(), rankings of unified / projected datasets, consensus rankings of "
            "several algorithms: positions[e] == 1 + number of elements in earlier buckets for exactly the bucket "
            "members, domain == union of buckets, nb_elements, len. (b) histories on a Dataset with a reference model "
            "(list of rankings): remove_elements(S) (Elements or raw names), "
            "remove_elements_rate_presence_lower_than(rate), remove_empty_rankings(), and derive-and-continue rules "
            "(unified_dataset, sub_problem_from_elements, sub_problem_from_ids, with and without keep_empty_rankings). "
            "After every step: universe == union of domains, nb_elements, both id maps inverse bijections onto "
            "0..n-1 and nothing else, homogeneous element types (int iff every name is integer-like), is_complete, "
            "without_ties, position / bucket-id matrices; and the multiset of rankings equals the model's. An "
            "EmptyDatasetException ends a history. Non-trivial: >=2 mutations of different kinds followed by a derived "
            "dataset on an incomplete dataset; for (a) a ranking with a multi-element non-last bucket.",
    "assumptions": ["integer-like = int, or str made of decimal digits; strings that int() accepts but are not plain "
                    "digit strings ('-5', ' 5', '1_0') are not generated (ambiguous in the documentation)",
                    "what remove_elements does with already-empty rankings is unspecified: empty rankings are ignored "
                    "when comparing with the model after that call",
                    "elements outside the universe are not passed to remove_elements"],
    "budget_s": {"quick": 120, "thorough": 900},
}

KINDS = ("dense", "dense1", "mult8", "negs", "big", "str", "strodd", "digits", "mixed", "mixed2", "exotic", "exotic2",
         "collapse")
# digits of other scripts are decimal digits (int() reads them); superscripts are 'digits' for str.isdigit but not
# for int(): names made of them are not integer-like
EXOTIC_POOL = ["\u00b2", "1", "2", "\u0663", "\u00b34", "5", "6", "7", "8", "9", "10", "11", "12", "13", "14", "15"]
EXOTIC2_POOL = ["\u0663", "1", "\u0664\u0665", "2", "5", "6", "7", "8", "9", "10", "11", "12", "13", "14", "15", "16"]
DIGIT_POOL = ["0", "1", "2", "3", "10", "11", "007", "42", "5", "6", "77", "8", "9", "12", "13", "14"]
MIXED_POOL = ["1", "2", "3", "a", "4", "b", "5", "6", "10", "c", "7", "8", "d", "9", "11", "12"]
MIXED2_POOL = [1, 2, "x", 3, 4, "y", 5, 6, 7, "w", 8, 9, 10, "z", 11, 12]


@st.composite
def collapse_datasets(draw, max_n, max_m):
    """several spellings of one integer (7, "7", "007") always tied together in one bucket: distinct elements while
    the dataset holds strings (the name "a" is there), ONE element as soon as every name is integer-like (from the
    start, or after "a" is removed) - the bucket then shrinks, which may end a tie"""
    n = draw(st.sampled_from(list(range(1, max_n + 1))))
    with_a = draw(st.booleans())
    base = list(range(1, n + 1)) + (["a"] if with_a else [])
    spell = {}
    for k in range(1, n + 1):
        forms = [str(k), "0" + str(k), "00" + str(k)] if with_a else [k, str(k), "0" + str(k)]
        nb = draw(st.sampled_from([1, 1, 2, 3]))
        spell[k] = list(draw(st.permutations(forms)))[:nb]
    m = draw(st.sampled_from(list(range(1, max_m + 1))))
    rankings = []
    for _ in range(m):
        mask = draw(st.lists(st.integers(0, 3), min_size=len(base), max_size=len(base)))
        dom = [e for e, k in zip(base, mask) if k > 0]
        r = draw(gen.weak_order_of(dom))
        rankings.append([[f for e in b for f in (spell[e] if e != "a" else ["a"])] for b in r])
    if with_a and not any("a" in b for r in rankings for b in r):
        rankings.append([["a"]])
    if not any(b for r in rankings for b in r):
        rankings[0] = [list(spell[1])]
    return {"rankings": rankings, "shape": "mixed", "kind": "collapse"}


@st.composite
def c16_datasets(draw, max_n=7, max_m=5):
    kind = draw(st.sampled_from(KINDS))
    if kind == "collapse":
        return draw(collapse_datasets(max_n, max_m))
    if kind in ("digits", "mixed", "mixed2", "exotic", "exotic2"):
        pool = {"digits": DIGIT_POOL, "mixed": MIXED_POOL, "mixed2": MIXED2_POOL, "exotic": EXOTIC_POOL,
                "exotic2": EXOTIC2_POOL}[kind]
        n = draw(st.sampled_from(list(range(1, max_n + 1))))
        # keep the first names of the pool so that the non-integer names are few and removable
        names = pool[:n] if kind != "digits" else list(draw(st.permutations(pool)))[:n]
        # distinct after normalisation
        seen, out = set(), []
        for x in names:
            k = str(int(x)) if (isinstance(x, str) and x.isdecimal()) else str(x)
            if k not in seen:
                seen.add(k)
                out.append(x)
        names = out
        m = draw(st.sampled_from(list(range(1, max_m + 1))))
        rankings = []
        for _ in range(m):
            mask = draw(st.lists(st.integers(0, 3), min_size=len(names), max_size=len(names)))
            dom = [e for e, k in zip(names, mask) if k > 0]
            rankings.append(draw(gen.weak_order_of(dom)))
        if not any(b for r in rankings for b in r):
            rankings[0] = [[names[0]]]
        if draw(st.integers(0, 4)) == 0:
            rankings.append([])
        return {"rankings": rankings, "shape": "mixed", "kind": kind}
    return draw(gen.datasets(max_n=max_n, max_m=max_m, kinds=(kind,), many="byte"))


# ----------------------------------------------------------------------------------------------
def check_ranking_views(r, what):
    if not isinstance(r, Ranking):
        raise Violation("%s is a %s" % (what, type(r).__name__))
    pos = 1
    expected = {}
    for b in r.buckets:
        for e in b:
            k = (lib.raw(e).__class__.__name__, lib.raw(e))
            if k in expected:
                raise Violation("%s: element %r appears in two buckets of %s" % (what, lib.raw(e), r))
            expected[k] = pos
        pos += len(b)
    got = {(lib.raw(e).__class__.__name__, lib.raw(e)): p for e, p in r.positions.items()}
    if got != expected:
        raise Violation("%s: positions %s disagree with buckets %s (expected %s)" % (what, got, r, expected))
    dom = {(lib.raw(e).__class__.__name__, lib.raw(e)) for e in r.domain}
    if dom != set(expected):
        raise Violation("%s: domain %s disagrees with buckets %s" % (what, dom, r))
    if r.nb_elements != len(expected):
        raise Violation("%s: nb_elements=%d but buckets %s hold %d elements" % (what, r.nb_elements, r, len(expected)))
    if len(r) != len(r.buckets):
        raise Violation("%s: len=%d but %d buckets" % (what, len(r), len(r.buckets)))
    for i in range(len(r.buckets)):
        if r[i] != r.buckets[i]:
            raise Violation("%s: r[%d] differs from buckets[%d]" % (what, i, i))
    want_int = all(lib.int_like(v) for (_, v) in expected)
    if bool(lib.must(r.can_be_of_int)) != want_int:
        raise Violation("%s: can_be_of_int() = %r for the names %s" % (what, r.can_be_of_int(), [v for _, v in expected]))


def check_dataset_views(d, what):
    """all cross-view invariants of a Dataset; returns the model (list of rankings of raw values)"""
    if not isinstance(d, Dataset):
        raise Violation("%s is a %s" % (what, type(d).__name__))
    model = []
    union = {}
    for k, r in enumerate(d.rankings):
        check_ranking_views(r, "%s ranking %d" % (what, k))
        mr = []
        for b in r.buckets:
            mb = []
            for e in b:
                v = lib.raw(e)
                if e.type is not type(v):
                    raise Violation("%s: element %r declares type %s" % (what, v, e.type))
                mb.append(v)
                union[(type(v).__name__, v)] = v
            mr.append(mb)
        model.append(mr)
    names = list(union.values())
    univ = {(type(lib.raw(e)).__name__, lib.raw(e)) for e in d.universe}
    if univ != set(union):
        raise Violation("%s: universe %s differs from the union of the rankings' domains %s" % (
            what, sorted(univ, key=str), sorted(union, key=str)))
    n = len(union)
    if d.nb_elements != n:
        raise Violation("%s: nb_elements=%d, %d distinct elements in the rankings" % (what, d.nb_elements, n))
    if d.nb_rankings != len(d.rankings):
        raise Violation("%s: nb_rankings=%d, %d rankings" % (what, d.nb_rankings, len(d.rankings)))
    e2i = {(type(lib.raw(e)).__name__, lib.raw(e)): i for e, i in d.mapping_elem_id.items()}
    i2e = {i: (type(lib.raw(e)).__name__, lib.raw(e)) for i, e in d.mapping_id_elem.items()}
    if len(e2i) != len(d.mapping_elem_id):
        raise Violation("%s: mapping_elem_id has keys that collide: %s" % (what, d.mapping_elem_id))
    if set(e2i) != set(union) or sorted(e2i.values()) != list(range(n)):
        raise Violation("%s: mapping_elem_id %s is not a bijection from the universe %s onto 0..%d" % (
            what, e2i, sorted(union, key=str), n - 1))
    if set(i2e) != set(range(n)):
        raise Violation("%s: mapping_id_elem has keys %s, expected exactly 0..%d" % (what, sorted(i2e), n - 1))
    for k_, i in e2i.items():
        if i2e[i] != k_:
            raise Violation("%s: mapping_id_elem[%d]=%r but mapping_elem_id[%r]=%d" % (what, i, i2e[i], k_, i))
    all_int_like = all(lib.int_like(v) for v in names)
    types = {type(v) for v in names}
    if types and (types != {int} if all_int_like else types != {str}):
        raise Violation("%s: element types %s but names %s are %s" % (
            what, sorted(t.__name__ for t in types), names, "all integer-like" if all_int_like else "not all integers"))
    complete = all(sum(len(b) for b in r) == n for r in model)
    if d.is_complete is not complete and d.is_complete != complete:
        raise Violation("%s: is_complete=%r, rankings %s" % (what, d.is_complete, model))
    wt = not any(len(b) > 1 for r in model for b in r)
    if d.without_ties != wt:
        raise Violation("%s: without_ties=%r, rankings %s" % (what, d.without_ties, model))
    pos = d.get_positions()
    bid = d.get_bucket_ids()
    m = len(model)
    if pos.shape != (n, m) or bid.shape != (n, m):
        raise Violation("%s: matrices have shapes %s / %s, expected (%d, %d)" % (what, pos.shape, bid.shape, n, m))
    ep = np.full((n, m), -1)
    eb = np.full((n, m), -1)
    for j, r in enumerate(model):
        p = 0
        for bi, b in enumerate(r):
            for v in b:
                i = e2i[(type(v).__name__, v)]
                ep[i][j] = p
                eb[i][j] = bi
            p += len(b)
    if not np.array_equal(pos, ep):
        raise Violation("%s: get_positions() = %s, expected %s for %s" % (what, pos.tolist(), ep.tolist(), model))
    if not np.array_equal(bid, eb):
        raise Violation("%s: get_bucket_ids() = %s, expected %s for %s" % (what, bid.tolist(), eb.tolist(), model))
    for v in names:
        if not d.contains_element(v):
            raise Violation("%s: contains_element(%r) is False" % (what, v))
    return model


def multiset(model, drop_empty=False):
    return Counter(oracle.canon(r) for r in model if (r or not drop_empty))


def same_rankings(model_lib, model_ref, what, drop_empty=False):
    a, b = multiset(model_lib, drop_empty), multiset(model_ref, drop_empty)
    if a != b:
        raise Violation("%s: dataset holds %s, reference model says %s" % (what, model_lib, model_ref))


# ----------------------------------------------------------------------------------------------
class Interp:
    def __init__(self, init):
        self.model = lib.normalized(init["rankings"])
        self.d = lib.mk_dataset(init["rankings"])
        self.kinds = []
        self.derived_after = False
        self.ended = False
        # datasets left behind (the source of a derivation) or taken on the side (peek): each is an object of its own,
        # so whatever happens later to the current dataset must leave them exactly as they were
        self.others = []
        got = check_dataset_views(self.d, "from_raw_list")
        same_rankings(got, self.model, "from_raw_list")

    def universe(self):
        return oracle.universe(self.model)

    def pick(self, mask):
        univ = sorted(self.universe(), key=lambda v: (str(type(v)), v))
        return [e for i, e in enumerate(univ) if (mask >> i) & 1]

    def apply(self, op):
        if self.ended:
            return
        self._apply(op)
        for d, model, label in self.others[-4:]:
            what = "%s, re-examined after a later %s on another Dataset object" % (label, op["op"])
            got = check_dataset_views(d, what)
            same_rankings(got, model, what)

    def _apply(self, op):
        kind = op["op"]
        univ = self.universe()
        if kind == "remove":
            S = [e for e in self.pick(op["mask"])]
            arg = {Element(e) for e in S} if op["as_elements"] else set(S)
            new = [oracle.project(r, set(univ) - set(S)) for r in self.model]
            new = [r for r in new if r]
            st_, v = lib.call(self.d.remove_elements, arg, allowed=(EmptyDatasetException,))
            if not new:
                if st_ != "exc":
                    raise Violation("remove_elements(%s) emptied the dataset without EmptyDatasetException" % S)
                self.ended = True
                return
            if st_ == "exc":
                raise Violation("remove_elements(%s) raised EmptyDatasetException but elements %s remain" % (
                    S, oracle.universe(new)))
            self.model = lib.normalized(new)
            got = check_dataset_views(self.d, "after remove_elements(%s)" % S)
            same_rankings(got, self.model, "after remove_elements(%s)" % S, drop_empty=True)
            self.model = [r for r in got]  # adopt the library's choice about already-empty rankings (unspecified)
            self.kinds.append("remove")
        elif kind == "rate":
            p, q = op["rate"]
            m = len(self.model)
            gone = set()
            for e in univ:
                nb = sum(1 for r in self.model if any(e in b for b in r))
                if Fraction(nb, m) < Fraction(p, q):
                    gone.add(e)
            new = [oracle.project(r, set(univ) - gone) for r in self.model]
            new = [r for r in new if r]
            st_, v = lib.call(self.d.remove_elements_rate_presence_lower_than, p / q, allowed=(EmptyDatasetException,))
            what = "after remove_elements_rate_presence_lower_than(%d/%d)" % (p, q)
            if not new:
                if st_ != "exc":
                    raise Violation("%s: every element is below the rate but no EmptyDatasetException" % what)
                self.ended = True
                return
            if st_ == "exc":
                raise Violation("%s raised EmptyDatasetException but elements %s remain" % (what, oracle.universe(new)))
            self.model = lib.normalized(new)
            got = check_dataset_views(self.d, what)
            same_rankings(got, self.model, what, drop_empty=True)
            self.model = [r for r in got]
            self.kinds.append("rate")
        elif kind == "remove_empty":
            new = [r for r in self.model if r]
            lib.must(self.d.remove_empty_rankings)
            self.model = new
            got = check_dataset_views(self.d, "after remove_empty_rankings()")
            same_rankings(got, self.model, "after remove_empty_rankings()")
            self.kinds.append("remove_empty")
        elif kind == "unify":
            new = [oracle.unify(r, univ) for r in self.model]
            nd = lib.must(self.d.unified_dataset)
            rs = lib.must(self.d.unified_rankings)
            for k, r in enumerate(rs):
                check_ranking_views(r, "unified_rankings()[%d]" % k)
            same_rankings([lib.model_of_ranking(r) for r in rs], new, "unified_rankings()")
            if len(rs) != len(new):
                raise Violation("unified_rankings() returns %d rankings for %d" % (len(rs), len(new)))
            for r, want in zip(rs, new):
                if oracle.canon(lib.model_of_ranking(r)) != oracle.canon(want):
                    raise Violation("unified_rankings(): %s, expected %s (missing elements as ONE last bucket, order "
                                    "of rankings kept)" % (r, want))
            old = check_dataset_views(self.d, "dataset after unified_dataset()")
            same_rankings(old, self.model, "dataset after unified_dataset() (must be unchanged)")
            self.others.append((self.d, old, "the source of unified_dataset()"))
            self.d, self.model = nd, new
            got = check_dataset_views(self.d, "unified_dataset()")
            same_rankings(got, self.model, "unified_dataset()")
            self._derived()
        elif kind == "peek":
            # read-only derived views of the CURRENT dataset (it stays the current one): whatever they compute or
            # cache must not survive a later mutation
            rs = lib.must(self.d.unified_rankings)
            want = [oracle.unify(r, univ) for r in self.model]
            if [oracle.canon(lib.model_of_ranking(r)) for r in rs] != [oracle.canon(w) for w in want]:
                raise Violation("unified_rankings() = %s, expected %s for the current rankings %s" % (
                    [lib.model_of_ranking(r) for r in rs], want, self.model))
            for k, r in enumerate(rs):
                check_ranking_views(r, "unified_rankings()[%d]" % k)
            udo = lib.must(self.d.unified_dataset)
            ud = check_dataset_views(udo, "unified_dataset() (peek)")
            same_rankings(ud, want, "unified_dataset() (peek)")
            self.others.append((udo, ud, "a unified_dataset() taken earlier"))
            S = self.pick(op["mask"]) or univ[:1]
            sub = lib.must(self.d.sub_problem_from_elements, {Element(e) for e in S})
            got = check_dataset_views(sub, "sub_problem_from_elements(%s) (peek)" % S)
            same_rankings(got, lib.normalized([r2 for r2 in (oracle.project(r, set(S)) for r in self.model) if r2]),
                          "sub_problem_from_elements(%s) (peek)" % S)
            self.others.append((sub, got, "a sub_problem_from_elements(%s) taken earlier" % S))
            old = check_dataset_views(self.d, "dataset after peeking")
            same_rankings(old, self.model, "dataset after peeking (must be unchanged)")
            self.kinds.append("peek")
        elif kind == "aggregate":
            # an algorithm run on the current dataset must see exactly the current universe
            from checks.common_alg import well_formed
            cfgname = op["config"]
            sch = lib.mk_scheme(gen.PRESETS["unifying"])
            import random
            random.seed(op.get("rng", 0))
            st_, res = lib.call(configs.run, cfgname, "absent", self.d, sch, True, op.get("rng", 0))
            if res[0] == "ok":
                well_formed(res[1], self.model, True, "%s on the mutated dataset" % cfgname)
            old = check_dataset_views(self.d, "dataset after running %s" % cfgname)
            same_rankings(old, self.model, "dataset after running %s (must be unchanged)" % cfgname)
            self.kinds.append("aggregate")
        elif kind in ("sub_elements", "sub_ids"):
            S = self.pick(op["mask"])
            keep_empty = bool(op.get("keep_empty"))
            new = [oracle.project(r, set(S)) for r in self.model]
            if not keep_empty:
                new = [r for r in new if r]
            if kind == "sub_elements":
                arg = {Element(e) for e in S}
                f = self.d.sub_problem_from_elements
            else:
                arg = {self.d.mapping_elem_id[Element(e)] for e in S}
                f = self.d.sub_problem_from_ids
            if keep_empty:
                st_, nd = lib.call(f, arg, keep_empty_rankings=True, allowed=(EmptyDatasetException,))
            else:
                st_, nd = lib.call(f, arg, allowed=(EmptyDatasetException,))
            what = "%s(%s%s)" % (kind, S, ", keep_empty_rankings" if keep_empty else "")
            if not any(b for r in new for b in r):
                if st_ != "exc":
                    raise Violation("%s: nothing to keep but no EmptyDatasetException" % what)
                return
            if st_ == "exc":
                raise Violation("%s raised EmptyDatasetException although %s remain" % (what, new))
            old = check_dataset_views(self.d, "dataset after %s" % what)
            same_rankings(old, self.model, "dataset after %s (must be unchanged)" % what)
            self.others.append((self.d, old, "the source of %s" % what))
            self.d, self.model = nd, lib.normalized(new)
            got = check_dataset_views(self.d, what)
            same_rankings(got, self.model, what)
            self._derived()
        else:
            raise lib.HarnessError("unknown op %r" % (op,))

    def _derived(self):
        if len(set(self.kinds)) >= 2:
            self.derived_after = True
        self.kinds.append("derive")


def replay(history, ctx):
    it = Interp(history["init"])
    for op in history["ops"]:
        it.apply(op)
    record(history, it, ctx)


def record(history, it, ctx):
    raw = history["init"]["rankings"]
    nt = it.derived_after and not gen.is_complete(raw)
    ctx.stats.case(history, nt, ["kind:" + history["init"].get("kind", "?"), "steps:%d" % min(len(history["ops"]), 10),
                                 "ended_empty" if it.ended else "alive"] + ["did:" + k for k in set(it.kinds)])


RATES = [[0, 1], [1, 4], [1, 3], [1, 2], [2, 3], [3, 4], [1, 1], [3, 2]]


def machine_factory(ctx, tier):
    big = tier == "thorough"

    class Machine(RuleBasedStateMachine):
        def __init__(self):
            super().__init__()
            self.history = None
            self.it = None

        def _do(self, op):
            self.history["ops"].append(op)
            harness._HB["file"] and harness._heartbeat(SUB, self.history)
            try:
                self.it.apply(op)
            except BaseException as e:  # noqa
                kind, msg = harness._classify(e, sys.exc_info()[2])
                ctx.last_failure = {"sub": SUB.name, "case": {"init": self.history["init"],
                                                              "ops": list(self.history["ops"])},
                                    "kind": kind, "message": msg}
                raise

        @initialize(ds=c16_datasets(max_n=8 if big else 7, max_m=5))
        def init(self, ds):
            self.history = {"init": {"rankings": ds["rankings"], "kind": ds["kind"]}, "ops": []}
            try:
                self.it = Interp(self.history["init"])
            except BaseException as e:  # noqa
                kind, msg = harness._classify(e, sys.exc_info()[2])
                ctx.last_failure = {"sub": SUB.name, "case": {"init": self.history["init"], "ops": []},
                                    "kind": kind, "message": msg}
                raise

        @rule(mask=st.integers(0, 255), as_elements=st.booleans())
        def remove(self, mask, as_elements):
            self._do({"op": "remove", "mask": mask, "as_elements": as_elements})

        @rule(rate=st.sampled_from(RATES))
        def rate(self, rate):
            self._do({"op": "rate", "rate": rate})

        @rule()
        def remove_empty(self):
            self._do({"op": "remove_empty"})

        @rule()
        def unify(self):
            self._do({"op": "unify"})

        @rule(mask=st.integers(1, 255), keep_empty=st.booleans())
        def sub_elements(self, mask, keep_empty):
            self._do({"op": "sub_elements", "mask": mask, "keep_empty": keep_empty})

        @rule(mask=st.integers(1, 255))
        def peek(self, mask):
            self._do({"op": "peek", "mask": mask})

        @rule(config=st.sampled_from(["borda", "borda_bucket", "pickaperm", "copeland", "kwiksort", "bioconsert",
                                      "bioco"]), rng=st.integers(0, 999))
        def aggregate(self, config, rng):
            if len(self.it.universe()) <= 8:
                self._do({"op": "aggregate", "config": config, "rng": rng})

        @rule(mask=st.integers(1, 255), keep_empty=st.booleans())
        def sub_ids(self, mask, keep_empty):
            self._do({"op": "sub_ids", "mask": mask, "keep_empty": keep_empty})

        def teardown(self):
            if self.it is not None:
                record(self.history, self.it, ctx)

    return Machine


SUB = MachineSub("dataset_histories", machine_factory, replay, quick=8000, thorough=80000, steps_quick=10,
                 steps_thorough=20)


# ----------------------------------------------------------------------------------------------
@st.composite
def source_cases(draw, tier):
    ds = draw(c16_datasets(max_n=8, max_m=4))
    return {"dataset": ds, "as_elements": draw(st.booleans()), "seed": draw(st.integers(0, 9999)),
            "gen": [draw(st.integers(1, 7)), draw(st.integers(1, 4)), draw(st.sampled_from([0, 1, 5, 30, 100])),
                    draw(st.booleans())],
            "cfg": draw(st.sampled_from(["borda", "copeland", "kwiksort", "bioconsert", "parcons_default",
                                         "pickaperm", "exact_pulp"])),
            "mask": draw(st.integers(1, 255))}


def check_sources(case, ctx):
    rankings = case["dataset"]["rankings"]
    multi_nonlast = any(len(b) > 1 for r in rankings for b in r[:-1])
    ctx.stats.case(case, multi_nonlast, ["kind:" + case["dataset"]["kind"]])
    for k, r in enumerate(rankings):
        if case["as_elements"]:
            rk = lib.must(Ranking, [{Element(e) for e in b} for b in r])
        else:
            rk = lib.must(Ranking, lib.raw_ranking(r))
        check_ranking_views(rk, "Ranking(%s)" % r)
        if lib.model_of_ranking(rk) != [sorted(b, key=lambda v: (str(type(v)), v)) for b in r]:
            raise Violation("Ranking(%s) holds %s" % (r, rk))
        # textual source (only names that survive the notation: C18 owns the alphabet question)
        if all(isinstance(e, int) and e >= 0 for b in r for e in b) and r:
            rs = lib.must(Ranking.from_string, str(rk))
            check_ranking_views(rs, "Ranking.from_string(%r)" % str(rk))
    d = lib.mk_dataset(rankings)
    check_dataset_views(d, "from_raw_list")
    with lib.quiet():
        for k, r in enumerate(d.unified_rankings()):
            check_ranking_views(r, "unified_rankings()[%d]" % k)
        univ = sorted(d.universe, key=lambda e: (str(type(e.value)), e.value))
        keep = {e for i, e in enumerate(univ) if (case["mask"] >> i) & 1} or {univ[0]}
        check_dataset_views(d.sub_problem_from_elements(keep), "sub_problem_from_elements")
        check_dataset_views(d.unified_dataset(), "unified_dataset")
    n, m, steps, complete = case["gen"]
    random.seed(case["seed"])
    for k, r in enumerate(lib.must(Ranking.generate_rankings, n, m, steps, complete)):
        check_ranking_views(r, "generate_rankings(%d,%d,%d,%s)[%d]" % (n, m, steps, complete, k))
    for k, r in enumerate(lib.must(Ranking.uniform_permutations, n, m)):
        check_ranking_views(r, "uniform_permutations[%d]" % k)
    s = lib.mk_scheme(gen.PRESETS["unifying"])
    if len(d.universe) <= 6:
        st_, (status, val, alg) = lib.call(configs.run, case["cfg"], "absent", d, s, True, case["seed"])
        if status == "ok":
            for k, r in enumerate(val.consensus_rankings):
                check_ranking_views(r, "%s consensus ranking %d" % (case["cfg"], k))
            # ... and still after the consensus has been read through its other accessors
            with lib.quiet():
                for kk in (1, 2, 3, len(d.universe)):
                    top = lib.must(val.topk_ranking, kk)
                    lib.must(val.evaluate_topk_ranking, list(top)[:1], kk)
                lib.must(val.description)
                _ = val.kemeny_score
            for k, r in enumerate(val.consensus_rankings):
                check_ranking_views(r, "%s consensus ranking %d after top-k / description / score reads" % (
                    case["cfg"], k))
            got = check_dataset_views(d, "the dataset after %s and reads of its consensus" % case["cfg"])
            same_rankings(got, lib.normalized(case["dataset"]["rankings"]) if "dataset" in case else got,
                          "the dataset after %s and reads of its consensus" % case["cfg"])


def subchecks():
    return [SUB, HypSub("ranking_sources", source_cases, check_sources, 8000, 100000)]
