"""C07 — ParFront partition is respected by every optimal consensus; consistent_with is exact."""
from hypothesis import strategies as st
from vlib import gen, lib, oracle, mutate
from vlib.harness import HypSub
from vlib.lib import Violation
from checks.c06 import model_partition, partition_views
from corankco.partitioning.ordered_partition import OrderedPartition

META = {
    "level": "exploration",
    "engine": "hypothesis (oracle: enumeration of ALL optimal consensuses by DP back-tracking)",
    "rule": "(a) (dyadic scheme, dataset) with n<=6 (thorough 7), shapes biased to >=3 components with partial "
            "agreement: parfront_partition must be a partition of the universe, each group the union of a run of "
            "consecutive ParCons groups in the same order, and EVERY optimal consensus (all enumerated) must place "
            "every element of an earlier group strictly before every element of a later one. (b) generated "
            "(ordered partition, consensus) pairs - consistent by construction, one element moved across a boundary, "
            "a tie across a boundary, random, other universe of the same / a different size, with and without an "
            "associated dataset, one or several consensus rankings: consistent_with must equal the reference "
            "predicate. Non-trivial: (a) >=3 ParCons components, ParFront != ParCons and >=2 optimal consensuses; "
            "(b) >=2 groups and a multi-element bucket.",
    "assumptions": ["exact-tie question: dyadic penalties only", "instances with more than 3000 optimal consensuses "
                    "are skipped (counted under label too_many_optima)",
                    "partitions with an empty group are not generated (not partitions; the library's walk does not "
                    "terminate on them)"],
    "budget_s": {"quick": 120, "thorough": 900},
    "floors": {"parfront/components>=3": 0.2},
}

SHAPES = ["near_unanimous", "near_unanimous", "near_unanimous_incomplete", "near_unanimous_incomplete", "block_cyclic",
          "block_cyclic", "sparse_block", "incomplete", "complete", "cyclic_incomplete", "identical", "floaters",
          "floaters", "mixture", "cyclic_ties", "camps", "camps", "incomplete", "incomplete", "incomplete", "incomplete",
          "sparse_block", "sparse_block"]


FIXED_SCHEMES = [gen.PRESETS[k] for k in ("unifying", "pseudodistance", "induced", "extended", "unifying_half",
                                           "induced_half")]


@st.composite
def parfront_cases(draw, tier):
    # every generated dataset is examined under two drawn schemes AND under the presets: with the presets B[2] = T[0]
    # (or T = 0 ...), so pair costs are often exactly equal (before == tied, before == after) - the regime in which
    # robust and non-robust arcs differ and in which merges cascade backwards (measured on an independently written
    # breaking change: about 3 datasets in 10^4 expose it, all under preset schemes on sparse data)
    schemes = [draw(st.one_of(gen.free_schemes(), gen.tie_averse_schemes(), gen.near_presets())),
               draw(st.one_of(gen.free_schemes(), gen.preset_multiples()))]
    ds = draw(gen.datasets(max_n=7 if tier == "thorough" else 6, min_n=2, max_m=6, shapes=SHAPES))
    # one dataset in five is a Dataset OBJECT that was used (partitions computed, matrices read) and then mutated in
    # place down to these rankings (vlib/mutate.py): whatever it remembers must not reach the partitions
    return {"schemes": schemes, "dataset": ds, "via_mutation": draw(mutate.via_strategy(ds["rankings"], p=5))}


def check_parfront(case, ctx):
    if "scheme" in case:            # replay files recorded before schemes were batched
        return check_parfront_one({"scheme": case["scheme"], "dataset": case["dataset"]}, ctx)
    d = None
    if case.get("via_mutation"):
        s0 = lib.mk_scheme(case["schemes"][0])

        def warm(d0):
            OrderedPartition.parfront_partition(d0, s0)
            OrderedPartition.parcons_partition(d0, s0)
        d = mutate.build(case["dataset"]["rankings"], case["via_mutation"], warm)
    for scheme in case["schemes"] + FIXED_SCHEMES:
        check_parfront_one({"scheme": scheme, "dataset": case["dataset"]}, ctx, d)


def check_parfront_one(case, ctx, d=None):
    rankings, scheme = case["dataset"]["rankings"], case["scheme"]
    d, s = (d if d is not None else lib.mk_dataset(rankings)), lib.mk_scheme(scheme)
    inst = oracle.Instance(rankings, scheme)
    pf = lib.must(OrderedPartition.parfront_partition, d, s)
    pc = lib.must(OrderedPartition.parcons_partition, d, s)
    fgroups, fseen = model_partition(pf.partition, "ParFront partition")
    cgroups, cseen = model_partition(pc.partition, "ParCons partition")
    partition_views(pf, "ParFront partition")
    optima = inst.all_optima(cap=3000)
    labs = ["components>=3" if len(cgroups) >= 3 else "components<3",
            "parfront_merges" if len(fgroups) != len(cgroups) else "parfront=parcons",
            "parfront_groups:%d" % min(len(fgroups), 4)]
    if optima is None:
        ctx.stats.case(case, False, labs + ["too_many_optima"])
    else:
        ctx.stats.case(case, len(cgroups) >= 3 and len(fgroups) != len(cgroups) and len(optima) >= 2,
                       labs + ["optima>=2" if len(optima) >= 2 else "optima=1"] + gen.dataset_labels(case["dataset"]))
    if fseen != set(inst.elements):
        raise Violation("ParFront partition covers %s, universe is %s" % (sorted(fseen, key=str), inst.elements))
    # groups are unions of runs of consecutive ParCons groups, same order
    k = 0
    for g in fgroups:
        acc = set()
        while k < len(cgroups) and acc != set(g) and set(cgroups[k]) <= set(g):
            acc |= set(cgroups[k])
            k += 1
        if acc != set(g):
            raise Violation("ParFront group %s is not a union of consecutive ParCons groups (ParCons %s, ParFront %s)"
                            % (g, cgroups, fgroups))
    if k != len(cgroups):
        raise Violation("ParFront %s does not merge the ParCons partition %s in order" % (fgroups, cgroups))
    if optima is None:
        return
    for w in optima:
        if not oracle.consistent(fgroups, [list(b) for b in w]):
            raise Violation("optimal consensus %s (score %s) does not respect the ParFront partition %s" % (
                [sorted(b, key=str) for b in w], inst.optimum(), fgroups))


# ------------------------------------------------------------------------------------------------
@st.composite
def consistency_cases(draw, tier):
    n = draw(st.integers(1, 8))
    kind, names = draw(gen.element_names(n, ("dense", "mult8", "negs", "str", "strodd")))
    # ordered partition: split a permutation into non-empty groups
    perm = list(draw(st.permutations(names)))
    cuts = draw(st.lists(st.booleans(), min_size=n - 1, max_size=n - 1)) if n > 1 else []
    groups = [[perm[0]]]
    for e, c in zip(perm[1:], cuts):
        if c:
            groups.append([e])
        else:
            groups[-1].append(e)
    mode = draw(st.sampled_from(["consistent", "consistent", "moved", "tie_across", "random", "other_universe",
                                 "other_size", "swapped_groups", "exchanged", "exchanged"]))
    cons = []
    for g in groups:
        cons.extend(draw(gen.weak_order_of(g)))
    if mode == "moved" and len(cons) >= 2:
        i = draw(st.integers(0, len(cons) - 1))
        j = draw(st.integers(0, len(cons) - 1))
        e = cons[i][draw(st.integers(0, len(cons[i]) - 1))]
        cons[i] = [x for x in cons[i] if x != e]
        if draw(st.booleans()):
            cons[j] = cons[j] + [e]
        else:
            cons.insert(j, [e])
        cons = [b for b in cons if b]
    elif mode == "tie_across" and len(cons) >= 2:
        i = draw(st.integers(0, len(cons) - 2))
        cons[i] = cons[i] + cons[i + 1]
        del cons[i + 1]
    elif mode == "random":
        cons = draw(gen.weak_order_of(names))
    elif mode == "other_universe":
        repl = draw(st.sampled_from(names))
        new = 999 if isinstance(repl, int) else "zz"
        cons = [[new if x == repl else x for x in b] for b in cons]
    elif mode == "other_size":
        if draw(st.booleans()) and n > 1:
            gone = draw(st.sampled_from(names))
            cons = [[x for x in b if x != gone] for b in cons]
            cons = [b for b in cons if b]
        else:
            new = 999 if isinstance(names[0], int) else "zz"
            pos = draw(st.integers(0, len(cons)))
            cons.insert(pos, [new])
    elif mode == "exchanged" and len(groups) >= 2:
        # two elements of different groups exchange their places: every bucket keeps its size and the buckets still
        # line up with the group sizes (half of the time every group is ONE tied bucket), but the relation is broken
        if draw(st.booleans()):
            cons = [list(g) for g in groups]
        i, j = sorted(draw(st.lists(st.integers(0, len(groups) - 1), min_size=2, max_size=2, unique=True)))
        a = draw(st.sampled_from(groups[i]))
        b = draw(st.sampled_from(groups[j]))
        cons = [[b if x == a else a if x == b else x for x in bk] for bk in cons]
    elif mode == "swapped_groups" and len(groups) >= 2:
        i = draw(st.integers(0, len(groups) - 2))
        gg = list(groups)
        gg[i], gg[i + 1] = gg[i + 1], gg[i]
        cons = []
        for g in gg:
            cons.extend(draw(gen.weak_order_of(g)))
    extra = draw(st.booleans())
    return {"groups": groups, "cons": cons, "mode": mode, "with_dataset": draw(st.booleans()),
            # a second consensus ranking over the same elements as the first one (only the first one counts)
            "second_ranking": draw(gen.weak_order_of([e for b in cons for e in b])) if extra else None}


def check_consistency(case, ctx):
    groups, cons = case["groups"], case["cons"]
    part = OrderedPartition([{lib.Element(e) for e in g} for g in groups])
    rks = [lib.mk_ranking(cons)]
    if case.get("second_ranking"):
        rks.append(lib.mk_ranking(case["second_ranking"]))
    if case["with_dataset"] and cons:
        # the dataset associated with the consensus is the consensus ranking itself (same element set)
        dset = lib.mk_dataset([cons])
        c = lib.Consensus(rks, dset, lib.mk_scheme(gen.PRESETS["unifying"]))
    else:
        c = lib.Consensus(rks)
    want = oracle.consistent(groups, cons)
    ctx.stats.case(case, len(groups) >= 2 and any(len(b) > 1 for b in cons),
                   ["mode:" + case["mode"], "want:%s" % want, "groups:%d" % min(len(groups), 4)])
    got = lib.must(part.consistent_with, c)
    if not isinstance(got, bool) and got not in (0, 1):
        raise Violation("consistent_with returned %r" % (got,))
    if bool(got) != want:
        raise Violation("consistent_with(partition=%s, consensus=%s) = %r, reference predicate says %r" % (
            groups, cons, got, want))


def subchecks():
    return [HypSub("parfront", parfront_cases, check_parfront, 45000, 300000),
            HypSub("consistent_with", consistency_cases, check_consistency, 12000, 200000)]
