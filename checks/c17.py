"""C17 — dataset equality means same multiset of rankings, nothing else."""
from collections import Counter
from hypothesis import strategies as st
from vlib import gen, lib, oracle, mutate
from vlib.harness import HypSub
from vlib.lib import Violation

META = {
    "level": "exploration",
    "engine": "hypothesis (pairs: equal by construction / near misses / independent), 16 PYTHONHASHSEEDs",
    "rule": "pairs (A, B): B = A with rankings permuted, every bucket rebuilt by inserting its members in another "
            "order (element families whose hashes collide modulo small table sizes: multiples of 8/32, -1/-2, 2^61-1 "
            "neighbours, strings under per-shard PYTHONHASHSEED) and another name => must be equal; near misses (one "
            "element moved to a neighbouring bucket, two buckets swapped, a tie split or merged, one multiplicity "
            "changed, one element replaced, a name differing only by an inner space, a 'a, b' name vs two names) => "
            "must differ; independent pairs => model decides. Oracle: equality of the Counter of rankings (tuple of "
            "frozensets) on the model; also reflexive, symmetric, and agreement with a multiplicity-preserving "
            "matching under Ranking.__eq__. Non-trivial: a bucket with >=2 members whose insertion order differs "
            "between A and B, or a near miss.",
    "assumptions": ["string hash randomisation: one PYTHONHASHSEED per shard (16 per run), derived from VERIF_SEED"],
    "budget_s": {"quick": 100, "thorough": 700},
}


@st.composite
def pair_cases(draw, tier):
    big = tier == "thorough"
    ds = draw(gen.datasets(max_n=10 if big else 8, max_m=5))
    a = ds["rankings"]
    mode = draw(st.sampled_from(["equal", "equal", "equal", "moved", "swapped", "split", "merged", "multiplicity",
                                 "replaced", "independent", "space_name", "comma_name", "normalised", "normalised",
                                 "recombined", "recombined"]))
    b = [[list(draw(st.permutations(bk))) for bk in r] for r in draw(st.permutations(a))]
    if mode == "moved":
        cand = [(i, j) for i, r in enumerate(b) for j in range(len(r) - 1)]
        if cand:
            i, j = draw(st.sampled_from(cand))
            e = b[i][j].pop()
            b[i][j + 1].append(e)
            b[i] = [x for x in b[i] if x]
    elif mode == "swapped":
        cand = [(i, j) for i, r in enumerate(b) for j in range(len(r) - 1)]
        if cand:
            i, j = draw(st.sampled_from(cand))
            b[i][j], b[i][j + 1] = b[i][j + 1], b[i][j]
    elif mode == "split":
        cand = [(i, j) for i, r in enumerate(b) for j in range(len(r)) if len(r[j]) > 1]
        if cand:
            i, j = draw(st.sampled_from(cand))
            e = b[i][j].pop()
            b[i].insert(j + draw(st.integers(0, 1)), [e])
    elif mode == "merged":
        cand = [(i, j) for i, r in enumerate(b) for j in range(len(r) - 1)]
        if cand:
            i, j = draw(st.sampled_from(cand))
            b[i][j] = b[i][j] + b[i][j + 1]
            del b[i][j + 1]
    elif mode == "multiplicity":
        i = draw(st.integers(0, len(b) - 1))
        if draw(st.booleans()) and len(b) > 1 and any(x for k, r in enumerate(b) if k != i for x in r):
            del b[i]
        else:
            b.insert(i, [list(x) for x in b[i]])
    elif mode == "recombined":
        # A = {X.Y, X'.Y'} (+ common rankings), B = {X.Y', X'.Y}: X, X' weak orders of one half of the elements, Y, Y' of
        # the other half.  Every per-element statistic agrees (multiset of positions of each element, pairwise cost
        # table, completeness, ties), the multisets of rankings differ as soon as X != X' and Y != Y'
        univ = oracle.universe(a)
        if len(univ) >= 4:
            k = draw(st.integers(2, len(univ) - 2))
            left, right = univ[:k], univ[k:]
            x1, x2 = draw(gen.weak_order_of(list(draw(st.permutations(left))))), \
                draw(gen.weak_order_of(list(draw(st.permutations(left)))))
            y1, y2 = draw(gen.weak_order_of(list(draw(st.permutations(right))))), \
                draw(gen.weak_order_of(list(draw(st.permutations(right)))))
            common = [r for r in a[:draw(st.integers(0, 2))]]
            a = [x1 + y1, x2 + y2] + common
            b = [x1 + y2, x2 + y1] + common
            b = [[list(draw(st.permutations(bk))) for bk in r] for r in draw(st.permutations(b))]
    elif mode == "replaced":
        univ = oracle.universe(a)
        e = draw(st.sampled_from(univ))
        new = (max(abs(x) for x in univ) + 7) if isinstance(e, int) else "zq"
        b = [[[new if x == e else x for x in bk] for bk in r] for r in b]
    elif mode == "independent":
        b = draw(gen.datasets(max_n=4, max_m=3, kinds=(ds["kind"],)))["rankings"]
    elif mode == "normalised":
        # the same rankings written with int names on one side and with the decimal strings of the same ints on the
        # other (both datasets hold int elements), or with one non-integer name added on both sides (both hold strings)
        univ = oracle.universe(a)
        code = {e: i for i, e in enumerate(sorted(univ, key=str))}
        variant = draw(st.sampled_from(["int_vs_digits", "int_and_name_vs_strings"]))
        a = [[[code[x] for x in bk] for bk in r] for r in a]
        b = [[[str(code[x]) for x in bk] for bk in r] for r in b]
        if variant == "int_and_name_vs_strings":
            a = a + [[["w"]]]
            b = b + [[["w"]]]
    elif mode == "space_name":
        a = [[["a b"], ["c"]], [["c", "a b"]]]
        b = [[["ab"], ["c"]], [["c", "ab"]]] if draw(st.booleans()) else [[["a b"], ["c"]], [["a b", "c"]]]
    elif mode == "comma_name":
        a = [[["a, b"]], [["a, b"]]]
        b = [[["a", "b"]], [["b", "a"]]] if draw(st.booleans()) else [[["a, b"]], [["a, b"]]]
    if not any(x for r in b for x in r):
        b = [[list(x) for x in r] for r in a]
    # one pair in three: the second dataset is built through another public route than Dataset.from_raw_list (the
    # constructor, sets of Element objects, text, a file, a projection keeping everything)
    route = draw(st.sampled_from([None, None] + mutate.ROUTES[:1] + mutate.ROUTES[1:]))
    if route is not None and draw(st.integers(0, 1)):
        route = None
    return {"a": a, "b": b, "mode": mode, "route_b": route,
            "names": [draw(st.sampled_from(["", "A", "None"])), draw(st.sampled_from(["", "B", "None"]))]}


def model_counter(rankings):
    return Counter(oracle.canon(r) for r in lib.normalized(rankings))


def check(case, ctx):
    a, b = case["a"], case["b"]
    da, db = lib.mk_dataset(a, case["names"][0]), lib.mk_dataset(b, case["names"][1])
    if case.get("route_b"):
        with lib.quiet():
            db = lib.must(mutate.build_route, b, case["route_b"])
    want = model_counter(a) == model_counter(b)
    order_differs = any(len(bk) > 1 for r in a for bk in r) and case["mode"] == "equal"
    ctx.stats.case(case, order_differs or case["mode"] not in ("equal", "independent"),
                   ["mode:" + case["mode"], "want:%s" % want, "kind:" + str(type(oracle.universe(a)[0]).__name__)])
    got = lib.must(lambda: da == db)
    got_r = lib.must(lambda: db == da)
    if not isinstance(got, bool):
        raise Violation("A == B returned %r" % (got,))
    if got != got_r:
        raise Violation("equality is not symmetric: A==B is %r, B==A is %r for A=%s B=%s" % (got, got_r, a, b))
    if got != want:
        raise Violation("A == B is %r but the datasets %s the same multiset of rankings: A=%s B=%s" % (
            got, "hold" if want else "do not hold", a, b))
    if not lib.must(lambda: da == da) or lib.must(lambda: da != da):
        raise Violation("equality is not reflexive for %s" % a)
    if lib.must(lambda: da != db) == got:
        raise Violation("A != B is inconsistent with A == B for A=%s B=%s" % (a, b))
    # consistency with ranking equality: multiplicity-preserving matching under Ranking.__eq__
    rb = list(db.rankings)
    matched = True
    for r in da.rankings:
        for k, q in enumerate(rb):
            if r == q:
                del rb[k]
                break
        else:
            matched = False
            break
    matched = matched and not rb
    if matched != got:
        raise Violation("dataset equality (%r) disagrees with a matching of their rankings under Ranking.__eq__ (%r): "
                        "A=%s B=%s" % (got, matched, a, b))


@st.composite
def mutation_cases(draw, tier):
    """a dataset is compared, mutated in place (remove_elements / presence-rate filter / remove_empty_rankings),
    compared again, ...: equality must follow the CURRENT rankings"""
    from checks.c16 import RATES
    ds = draw(gen.datasets(max_n=6, max_m=5, kinds=("dense", "mult8", "str")))
    ops = []
    for _ in range(draw(st.integers(1, 4))):
        k = draw(st.sampled_from(["remove", "rate", "remove_empty", "remove_empty"]))
        if k == "remove":
            ops.append({"op": "remove", "mask": draw(st.integers(0, 63)), "as_elements": draw(st.booleans())})
        elif k == "rate":
            ops.append({"op": "rate", "rate": draw(st.sampled_from(RATES))})
        else:
            ops.append({"op": "remove_empty"})
    return {"rankings": ds["rankings"], "ops": ops, "compare_before": draw(st.booleans())}


def check_after_mutation(case, ctx):
    from checks.c16 import Interp
    it = Interp({"rankings": case["rankings"]})
    models = [[list(map(list, r)) for r in it.model]]
    done = 0
    for op in case["ops"]:
        if case["compare_before"]:
            if not lib.must(lambda: it.d == lib.mk_dataset(it.model)):
                raise Violation("dataset %s differs from a fresh dataset with the same rankings" % it.model)
        it.apply(op)
        if it.ended:
            break
        done += 1
        models.append([list(map(list, r)) for r in it.model])
        fresh = lib.mk_dataset(it.model)
        if not (lib.must(lambda: it.d == fresh) and lib.must(lambda: fresh == it.d)):
            raise Violation("after %s the dataset holds %s but does not compare equal to a fresh dataset with these "
                            "rankings" % (op, it.model))
        for old in models[:-1]:
            want = model_counter(old) == model_counter(it.model)
            got = lib.must(lambda: it.d == lib.mk_dataset(old))
            if got != want:
                raise Violation("after %s the dataset holds %s; compared with a dataset holding its earlier rankings "
                                "%s it answers %r" % (op, it.model, old, got))
    ctx.stats.case(case, done >= 1 and any(not r for r in case["rankings"]), ["ops_done:%d" % done])


@st.composite
def large_pair_cases(draw, tier):
    """hundreds of rankings (a few distinct ballots with large multiplicities): numbers of rankings beyond the small
    ints CPython shares (257 and more), beyond a byte, counters in the hundreds"""
    base = draw(gen.datasets(max_n=5, min_n=2, max_m=4, kinds=("dense", "str"), allow_empty_rankings=True))["rankings"]
    mult = [draw(st.sampled_from([1, 2, 100, 127, 128, 129, 255, 256, 257, 300])) for _ in base]
    mode = draw(st.sampled_from(["equal", "equal", "one_changed", "multiplicity_moved", "one_more"]))
    return {"base": base, "mult": mult, "mode": mode, "rot": draw(st.integers(0, 1000))}


def check_large_pairs(case, ctx):
    base, mult, mode = case["base"], case["mult"], case["mode"]
    a = [r for r, k in zip(base, mult) for _ in range(k)]
    b = list(a)
    rot = case["rot"] % len(b)
    b = b[rot:] + b[:rot]                       # same multiset, other order
    if mode == "one_changed":
        b[0] = [[e] for bk in reversed(b[0]) for e in bk] + ([] if b[0] else [[oracle.universe(a)[0]]])
    elif mode == "multiplicity_moved" and len(base) >= 2:
        # one copy of a ballot replaced by a copy of ANOTHER ballot: same total, same distinct ballots
        i = next(k for k, r in enumerate(b) if oracle.canon(r) != oracle.canon(b[0])) if any(
            oracle.canon(r) != oracle.canon(b[0]) for r in b) else 0
        b[i] = [list(x) for x in b[0]]
    elif mode == "one_more":
        b.append([list(x) for x in b[0]])
    if not any(bk for r in b for bk in r):
        b = list(a)          # (a dataset without any element is refused by the library: documented, not the subject)
    want = model_counter(a) == model_counter(b)
    ctx.stats.case(case, len(a) >= 257, ["mode:" + mode, "want:%s" % want, "m>=257:%s" % (len(a) >= 257)])
    da, db = lib.mk_dataset(a), lib.mk_dataset(b)
    got, got_r = lib.must(lambda: da == db), lib.must(lambda: db == da)
    if got is not True and got is not False:
        raise Violation("A == B returned %r" % (got,))
    if got != want or got_r != want:
        raise Violation("two datasets of %d and %d rankings (%d distinct, mode %s): A == B is %r, B == A is %r, but they "
                        "%s the same multiset of rankings" % (len(a), len(b), len(base), mode, got, got_r,
                                                              "hold" if want else "do not hold"))
    if not lib.must(lambda: da == lib.mk_dataset(list(a))):
        raise Violation("a dataset of %d rankings differs from a dataset built from the same list" % len(a))


def subchecks():
    return [HypSub("pairs", pair_cases, check, 20000, 300000),
            HypSub("after_mutation", mutation_cases, check_after_mutation, 8000, 80000),
            HypSub("pairs_large", large_pair_cases, check_large_pairs, 1500, 20000)]
