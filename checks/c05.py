"""C05 — the exact algorithm returns a global optimum, with or without CPLEX."""
import random
from hypothesis import strategies as st
from vlib import gen, lib, configs, oracle, cplex_standin, mutate
from vlib.harness import HypSub
from vlib.lib import Violation
from checks.common_alg import run_case, well_formed

META = {
    "level": "exploration",
    "engine": "hypothesis (differential against an independent exact optimiser)",
    "rule": "cases = (exact configuration, solver environment, scheme, dataset). CPLEX absent: ExactAlgorithm(), "
            "ExactAlgorithm(optimize=False), ExactAlgorithmPulp(), get_algorithm(EXACT) must answer and be optimal. "
            "CPLEX API present (stand-in): ExactAlgorithm(True|False), ExactAlgorithmCplex(True|False), "
            "ExactAlgorithmCplexForPaperOptim1; ExactAlgorithmCplex(optimize=False) with all optimal rankings "
            "requested must return exactly the set of minimisers. Oracle: subset-DP optimum / back-enumeration of all "
            "optima over exact integers (vlib/oracle.py), itself cross-checked against brute-force enumeration of all "
            "weak orders for n<=5 in every worker. Non-trivial: the instance is not solved by graph pre-processing "
            "alone (a component of >=3 elements that cannot be all tied); for optimised CPLEX paths additionally some "
            "ranking ranks no element of that component.",
    "assumptions": ["real CPLEX replaced by vlib/cplex_standin.py (generic exact 0-1 ILP solver, self-tested against "
                    "brute force on random tiny ILPs in every worker); statement about the model corankco builds and "
                    "its decoding, not about CPLEX numerics",
                    "optimality decided up to n<=7 (quick) / 9 (thorough) without CPLEX and n<=5/6 with the stand-in",
                    "decimal schemes: optimum compared with tolerance 1e-6; dyadic: exact"],
    "budget_s": {"quick": 120, "thorough": 900},
    "floors": {"optimal_absent/incomplete": 0.3, "optimal_standin/incomplete": 0.3},
}

SHAPES = ["sparse_block", "sparse_block", "incomplete", "incomplete", "near_unanimous_incomplete", "near_unanimous",
          "complete", "identical", "cyclic", "cyclic", "cyclic_incomplete", "cyclic_incomplete", "cyclic_incomplete",
          "cyclic_ties", "cyclic_ties", "cyclic_ties", "mixture", "mixture", "fence", "fence", "clones"]
ABSENT = ["exact_default", "exact_noopt", "exact_pulp", "enum_exact"]
STANDIN = ["exact_default", "exact_noopt", "cplex_opt", "cplex_noopt", "cplex_paper", "enum_exact"]


def setup_worker():
    rnd = random.Random(12345)
    cplex_standin.self_test(rnd)
    cases = []
    for _ in range(25):
        n = rnd.randint(1, 5)
        names = list(range(n))
        rankings = []
        for _ in range(rnd.randint(1, 3)):
            dom = [e for e in names if rnd.random() < 0.7]
            rnd.shuffle(dom)
            r = []
            for e in dom:
                if r and rnd.random() < 0.4:
                    r[-1].append(e)
                else:
                    r.append([e])
            rankings.append(r)
        if not any(b for r in rankings for b in r):
            rankings[0] = [[0]]
        vals = gen.DYADIC
        b3, b4 = sorted([rnd.choice(vals), rnd.choice(vals)])
        t0, t3 = rnd.choice(vals), rnd.choice(vals)
        scheme = [[0.0, rnd.choice(gen.DYADIC_POS), rnd.choice(vals), b3, b4, rnd.choice(vals)],
                  [t0, t0, 0.0, t3, t3, rnd.choice(vals)]]
        cases.append((rankings, scheme))
    oracle.self_test(cases)


def scheme_strategy():
    # B[5] != T[5] matters for sub-problem projection: free schemes produce it about 8 times out of 9
    return st.one_of(gen.free_schemes(), gen.free_schemes(), gen.tie_averse_schemes(), gen.tie_averse_schemes(),
                     gen.tie_averse_schemes(), gen.preset_multiples(), gen.near_presets(), gen.decimal_schemes(),
                     gen.scaled_schemes(), gen.scaled_schemes(),
                     gen.preset_multiples(["induced", "induced_half", "pseudodistance"]))


@st.composite
def cases_for(draw, tier, names, env, max_q, max_t, flags=(True,), dyadic_only=False):
    name = draw(st.sampled_from(names))
    # exact-tie questions (the SET of minimisers) are only asked under exactly representable penalties: with decimal
    # penalties two mathematically equal sums may differ by one ulp, which the solver's 1e-6 pool gap (rightly) ignores
    scheme = draw(gen.dyadic_schemes() if dyadic_only else scheme_strategy())
    ds = draw(gen.datasets(max_n=max_t if tier == "thorough" else max_q, max_m=5, shapes=SHAPES,
                           kinds=("dense", "dense1", "mult8", "negs", "str", "strodd")))
    flag = draw(st.sampled_from(list(flags)))
    return {"config": name, "env": env, "scheme": scheme, "dataset": ds, "at_most_one": flag, "rng": 0,
            "via_mutation": draw(mutate.via_strategy(ds["rankings"], p=5))}


def hard_component(inst, rankings):
    """(exists a component with >=3 elements that cannot be all tied, some ranking misses such a component entirely)"""
    hard = missing = False
    for comp in oracle.graph_components(inst):
        if len(comp) >= 3 and not oracle.can_be_all_tied(inst, comp):
            hard = True
            els = {inst.elements[i] for i in comp}
            for r in rankings:
                if not any(e in els for b in r for e in b):
                    missing = True
    return hard, missing


def check_optimal(case, ctx):
    rankings, scheme = case["dataset"]["rankings"], case["scheme"]
    status, val, alg, d, s = run_case(case)
    inst = oracle.Instance(rankings, scheme)
    hard, missing = hard_component(inst, rankings)
    optimised = case["config"] in ("exact_default", "cplex_opt", "enum_exact") and case["env"] == "standin"
    nt = hard and (missing or not optimised)
    labels = gen.dataset_labels(case["dataset"]) + gen.scheme_labels(scheme) + [
        "cfg:" + case["config"], "status:" + status, "hard_component" if hard else "preprocessing_only",
        "ranking_misses_component" if missing else "no_missing_component"]
    ctx.stats.case(case, nt, labels)
    if status == "usage":
        # "optimize=True with all rankings requested" is a documented usage error of the CPLEX model only: without
        # CPLEX every configuration answers through the free solver, whatever the flag
        if case["env"] == "absent":
            raise Violation("%s without cplex (at most one ranking: %s) fails with %s instead of answering through the "
                            "free solver: %s" % (case["config"], case["at_most_one"], type(val).__name__, val))
        return
    if status != "ok":
        raise Violation("%s (%s) refused the instance: %r" % (case["config"], case["env"], val))
    models = well_formed(val, rankings, case["at_most_one"], case["config"])
    opt = inst.optimum()
    for m in models:
        sc = inst.score(m)
        ok = (sc == opt) if lib.is_dyadic(scheme) else abs(float(sc) - float(opt)) <= 1e-6
        if not ok:
            raise Violation("%s (cplex %s) returned %s with score %s but the optimum is %s" % (
                case["config"], case["env"], m, sc, opt))
    if not val.necessarily_optimal:
        raise Violation("%s does not mark its consensus as necessarily optimal" % case["config"])


def check_all_optima(case, ctx):
    rankings, scheme = case["dataset"]["rankings"], case["scheme"]
    inst = oracle.Instance(rankings, scheme)
    want = inst.all_optima(cap=400)
    if want is None:
        ctx.stats.case(case, False, ["too_many_optima"])
        return
    status, val, alg, d, s = run_case(case)
    hard, missing = hard_component(inst, rankings)
    ctx.stats.case(case, hard and len(want) >= 2, ["nb_optima:%d" % min(len(want), 5),
                                                   "hard_component" if hard else "preprocessing_only"])
    if status != "ok":
        raise Violation("%s (%s) refused the instance: %r" % (case["config"], case["env"], val))
    models = well_formed(val, rankings, False, case["config"])
    got = [oracle.canon(m) for m in models]
    gs = set(got)
    if gs != want:
        raise Violation("all optimal consensuses requested from %s: returned %d ranking(s) %s; missing minimisers %s; "
                        "returned non-minimisers %s" % (
                            case["config"], len(got), [[sorted(b, key=str) for b in g] for g in got][:6],
                            [[sorted(b, key=str) for b in g] for g in (want - gs)][:4],
                            [[sorted(b, key=str) for b in g] for g in (gs - want)][:4]))


@st.composite
def cycle_tie_cases(draw, tier):
    """Condorcet cycles plus rankings tying the same elements, under schemes where a tie costs about as much as an
    inversion: inside the component no pair alone prefers the tie strictly, yet a tied bucket beats every strict
    order (or the converse) - the region where pruning rules about ties are decisive"""
    name = draw(st.sampled_from(ABSENT))
    scheme = draw(st.one_of(gen.preset_multiples(), gen.preset_multiples(), gen.free_schemes(), gen.near_presets()))
    ds = draw(gen.datasets(max_n=6 if tier == "thorough" else 5, min_n=3, max_m=4, shapes=["cyclic_ties"],
                           kinds=("dense", "mult8", "str"), allow_empty_rankings=False))
    return {"config": name, "env": "absent", "scheme": scheme, "dataset": ds, "at_most_one": True, "rng": 0}


def subchecks():
    return [
        HypSub("optimal_absent", lambda t: cases_for(t, ABSENT, "absent", 7, 9, flags=(True, True, False)),
               check_optimal, 5000, 60000),
        HypSub("optimal_standin", lambda t: cases_for(t, STANDIN, "standin", 5, 6), check_optimal, 5000, 50000),
        HypSub("cycles_vs_ties", cycle_tie_cases, check_optimal, 2000, 30000),
        HypSub("all_optima_standin", lambda t: cases_for(t, ["cplex_noopt", "exact_noopt"], "standin", 5, 6, (False,),
                                                    dyadic_only=True),
               check_all_optima, 2000, 20000),
    ]
