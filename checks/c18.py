"""C18 — rankings and datasets survive a round trip through text and files; the parser is total."""
import json
import os
import shutil
import subprocess
import sys
import tempfile
from collections import Counter
from hypothesis import strategies as st
from vlib import gen, lib, oracle, harness
from vlib.harness import HypSub, CustomSub
from vlib.lib import Violation
from corankco.ranking import Ranking
from corankco.dataset import Dataset, EmptyDatasetException
from corankco.utils import parse_ranking_with_ties_of_str, parse_ranking_with_ties_of_int

META = {
    "level": "exploration",
    "engine": "hypothesis + atheris (coverage-guided, libFuzzer) on the hand-written scanner",
    "rule": "round trip: rankings with non-empty buckets over homogeneous elements - non-negative ints, or strings "
            "over ASCII letters/digits/punctuation other than []{},: with inner spaces and non-ASCII letters/digits "
            "(e.g. e-acute, superscript two), non-empty, stripped, for which int(s) fails - rendered as str(ranking) "
            "(braces), bracket notation, with surrounding whitespace / newline, with a 'name : ' prefix: "
            "Ranking.from_string(text) must equal the ranking (buckets as sets, element types preserved). Files: "
            "datasets over the same alphabet incl. empty rankings and duplicates, Dataset.write to a fresh path then "
            "Dataset.from_file: same multiset of rankings (compared on the model, not with Dataset.__eq__). Totality: "
            "arbitrary text over the format alphabet ([]{},: whitespace digits letters) given to Ranking.from_string, "
            "parse_ranking_with_ties_of_str/_int returns or raises ValueError, nothing else; arbitrary file content "
            "given to Dataset.from_file returns or raises ValueError / EmptyDatasetException. A parse that does not "
            "return within the per-case watchdog (150 s) is reported as a hang. atheris: bytes -> text over the format "
            "alphabet -> same totality oracle, plus structured mode (bytes -> ranking -> rendering -> one-character "
            "mutation) with the round-trip oracle inside the target. Non-trivial: round trip with >=2 buckets, a "
            "multi-element bucket and (string names with an inner space or non-ASCII character, or >=4 ints); "
            "totality: text with >=2 bracket characters.",
    "assumptions": ["rankings with an empty BUCKET have no textual notation and are not generated",
                    "'no hang' is a bounded-time observation, not a termination proof",
                    "libFuzzer campaigns are pinned only approximately by -seed; the reproducible unit is the saved "
                    "failing input (replayed through the same oracle)"],
    "budget_s": {"quick": 120, "thorough": 900},
}

# the last characters are the line boundaries of str.splitlines() other than \n and \r (vertical tab, form feed, the
# separators FS / GS / RS, NEL, LINE and PARAGRAPH SEPARATOR): ordinary characters for a reader that splits on "\n"
NAME_ALPHABET = "abcdefgXYZ0123456789 _-.;!?/\\'\"()<>=+*&^%$#@~|éü²³٣中\x0b\x0c\x1c\x1d\x1e\x85\u2028\u2029"


WORDS = ["HLA", "DRB6", "a", "b8", "x", "gene", "7", "NF", "kB", "Z"]


@st.composite
def str_names(draw, n, long_names=False):
    out = []
    seen = set()
    tries = 0
    while len(out) < n and tries < 200 + 3 * n:
        tries += 1
        how = draw(st.integers(0, 5)) if long_names else 0
        if how <= 2:
            k = draw(st.integers(1, 5))
            s = "".join(draw(st.lists(st.sampled_from(NAME_ALPHABET), min_size=k, max_size=k))).strip()
        elif how <= 4:
            # words joined by hyphens, single or double blanks, dots (gene-like names)
            nw = draw(st.integers(2, 4))
            s = draw(st.sampled_from(WORDS))
            for _ in range(nw - 1):
                s += draw(st.sampled_from(["-", " ", "  ", ".", "_", " - "])) + draw(st.sampled_from(WORDS))
            s += str(len(out))
        else:
            # one very long name (longer than any line width a writer could think of)
            k = draw(st.sampled_from([70, 81, 100, 130]))
            s = (draw(st.sampled_from(WORDS)) + draw(st.sampled_from(["-", " ", "  "]))) * k
            s = (s[:k] + "x%d" % len(out)).strip()
        if not s or s in seen:
            continue
        try:
            int(s)
            continue            # readable as an integer: outside the stated alphabet
        except ValueError:
            pass
        seen.add(s)
        out.append(s)
    return out


@st.composite
def rt_rankings(draw, max_n=8, allow_empty=True):
    n = draw(st.sampled_from(list(range(0 if allow_empty else 1, max_n + 1))))
    wide = max_n >= 8 and draw(st.integers(0, 7)) == 0      # a ranking whose text is hundreds of characters long
    if wide:
        n = draw(st.sampled_from([25, 40, 60]))
    if draw(st.booleans()):
        pool = draw(st.sampled_from([list(range(0, 20)), [0, 7, 10, 100, 1000, 2 ** 40, 2 ** 70, 99, 5, 12, 13, 8, 16]]))
        if wide:
            pool = list(range(0, 3000, 37)) + [2 ** 40 + i for i in range(20)]
        names = list(draw(st.permutations(pool)))[:n]
        kind = "int"
    else:
        names = draw(str_names(n, long_names=wide or draw(st.integers(0, 3)) == 0))
        kind = "str"
    return kind, draw(gen.weak_order_of(names))


def render(r, style, pad):
    def el(e):
        return str(e)
    if style == "str":
        text = str(lib.mk_ranking(r))
    elif style == "braces":
        text = "[" + ", ".join("{" + ", ".join(el(e) for e in b) + "}" for b in r) + "]"
    elif style == "brackets":
        text = "[" + ", ".join("[" + ", ".join(el(e) for e in b) + "]" for b in r) + "]"
    elif style == "tight":
        # the bracket notation without the spaces str() puts after commas (whitespace INSIDE the notation beyond what
        # str() produces, e.g. '[ {1} ]', is not part of the statement and is not generated)
        text = "[" + ",".join("[" + ",".join(el(e) for e in b) + "]" for b in r) + "]"
    else:
        raise lib.HarnessError("unknown style %r" % style)
    if pad == "ws":
        text = "  \t" + text + " \n"
    elif pad == "name":
        text = "r1 : " + text
    elif pad == "name_ws":
        text = " my ranking :" + text + "\n"
    elif pad == "name_colon":
        # the name itself may contain the separator: everything up to the LAST colon is the name
        text = "run:2 : " + text
    return text


@st.composite
def roundtrip_cases(draw, tier):
    kind, r = draw(rt_rankings())
    return {"kind": kind, "ranking": r, "style": draw(st.sampled_from(["str", "braces", "brackets", "tight"])),
            "pad": draw(st.sampled_from(["none", "ws", "name", "name_ws", "name_colon"]))}


def check_roundtrip(case, ctx):
    r = case["ranking"]
    text = render(r, case["style"], case["pad"])
    names = [e for b in r for e in b]
    nt = len(r) >= 2 and any(len(b) > 1 for b in r) and (
        (case["kind"] == "str" and any((" " in e) or any(ord(c) > 127 for c in e) for e in names)) or
        (case["kind"] == "int" and len(names) >= 4))
    ctx.stats.case(case, nt, ["kind:" + case["kind"], "style:" + case["style"], "pad:" + case["pad"],
                              "empty" if not r else "nonempty"])
    got = lib.must(Ranking.from_string, text)
    want = lib.mk_ranking(r)
    gm, wm = lib.model_of_ranking(got), lib.model_of_ranking(want)
    if gm != wm or not (got == want):
        raise Violation("Ranking.from_string(%r) = %s (%s), expected %s" % (
            text, got, [[type(e).__name__ for e in b] for b in gm][:3], wm))


@st.composite
def file_cases(draw, tier):
    m = draw(st.integers(1, 5))
    kind = draw(st.sampled_from(["int", "str"]))
    # one file in six has lines of several hundred characters (many elements and / or long names)
    wide = draw(st.integers(0, 5)) == 0
    if kind == "int":
        pool = list(range(0, 12)) if not wide else list(range(0, 5000, 41)) + [10 ** 12 + i for i in range(10)]
        names = list(draw(st.permutations(pool)))[:draw(st.integers(1, 8)) if not wide else
                                                  draw(st.sampled_from([20, 35, 60]))]
    else:
        names = draw(str_names(draw(st.integers(1, 6)) if not wide else draw(st.sampled_from([12, 20, 30])),
                               long_names=wide or draw(st.integers(0, 3)) == 0))
        if not names:
            names = ["a"]
    rankings = []
    for _ in range(m):
        mask = draw(st.lists(st.integers(0, 3), min_size=len(names), max_size=len(names)))
        rankings.append(draw(gen.weak_order_of([e for e, k in zip(names, mask) if k > 0])))
    if not any(b for r in rankings for b in r):
        rankings[0] = [[names[0]]]
    if draw(st.integers(0, 3)) == 0:
        i = draw(st.integers(0, len(rankings) - 1))
        rankings.append([list(b) for b in rankings[i]])
    second = None
    if draw(st.integers(0, 2)) == 0:
        second = [draw(gen.weak_order_of(list(draw(st.permutations(names)))[:draw(st.integers(1, len(names)))]))
                  for _ in range(draw(st.integers(1, 3)))]
    return {"kind": kind, "rankings": rankings, "second": second}


def scratch_dir():
    base = os.path.join(harness.WORK, "c18_files")
    os.makedirs(base, exist_ok=True)
    return tempfile.mkdtemp(prefix="rt_", dir=base)


def check_file(case, ctx):
    rankings = case["rankings"]
    d = lib.mk_dataset(rankings)
    tmp = scratch_dir()
    try:
        path = os.path.join(tmp, "dataset.txt")
        lib.must(d.write, path)
        if not os.path.isfile(path):
            raise Violation("Dataset.write(%r) wrote no file" % path)
        d2 = lib.must(Dataset.from_file, path)
        with open(path, encoding="utf-8") as f:
            content = f.read()
        # the two other public readers of the same file: they must see the dataset that was written as well
        want_ms = Counter(oracle.canon(r) for r in lib.normalized(rankings))
        others = [("Dataset.get_dataset_from_file", lib.must(Dataset.get_dataset_from_file, path))]
        folder = lib.must(Dataset.get_datasets_from_folder, tmp)
        if not isinstance(folder, list) or len(folder) != 1:
            raise Violation("Dataset.get_datasets_from_folder on a folder holding one file returned %r" % (folder,))
        others.append(("Dataset.get_datasets_from_folder", folder[0]))
        for what, dx in others:
            if Counter(oracle.canon(r) for r in lib.model_of_dataset(dx)) != want_ms:
                raise Violation("dataset %s written as %r reads back through %s as %s" % (
                    rankings, content, what, lib.model_of_dataset(dx)))
        if rankings:
            # one ranking alone in a file: Ranking.from_file reads what Ranking.from_string reads
            rpath = os.path.join(tmp, "ranking.txt")
            r0 = lib.mk_ranking(rankings[0])
            with open(rpath, "w", encoding="utf-8") as f:
                f.write(str(r0))
            rf = lib.must(Ranking.from_file, rpath)
            os.remove(rpath)
            if lib.model_of_ranking(rf) != lib.model_of_ranking(lib.must(Ranking.from_string, str(r0))):
                raise Violation("Ranking.from_file on %r gives %s, Ranking.from_string gives %s" % (
                    str(r0), rf, Ranking.from_string(str(r0))))
        if case.get("second"):
            # the path is fresh again after the file is deleted: another dataset written there must read back as itself
            os.remove(path)
            lib.must(lib.mk_dataset(case["second"]).write, path)
            d3 = lib.must(Dataset.from_file, path)
            w3 = Counter(oracle.canon(r) for r in lib.normalized(case["second"]))
            g3 = Counter(oracle.canon(r) for r in lib.model_of_dataset(d3))
            if g3 != w3:
                raise Violation("path reused after deletion: dataset %s written, %s read back (first dataset at that "
                                "path was %s)" % (case["second"], lib.model_of_dataset(d3), rankings))
    finally:
        shutil.rmtree(tmp, ignore_errors=True)
    want = Counter(oracle.canon(r) for r in lib.normalized(rankings))
    got = Counter(oracle.canon(r) for r in lib.model_of_dataset(d2))
    ctx.stats.case(case, len(rankings) >= 2 and any(len(b) > 1 for r in rankings for b in r),
                   ["kind:" + case["kind"], "has_empty_ranking" if any(not r for r in rankings) else "no_empty_ranking",
                    "longest_line:%s" % ("<=80" if max(len(x) for x in content.split("\n")) <= 80 else ">80")])
    if got != want:
        raise Violation("dataset %s written as %r reads back as %s" % (rankings, content, lib.model_of_dataset(d2)))
    types = {type(e) for r in lib.model_of_dataset(d2) for b in r for e in b}
    wt = {type(e) for r in lib.normalized(rankings) for b in r for e in b}
    if types != wt:
        raise Violation("element types change through the file: %s -> %s" % (wt, types))


FORMAT_ALPHABET = "[]{},: \n\t0123456789abAB-_'%\\"


@st.composite
def text_cases(draw, tier):
    mode = draw(st.sampled_from(["random", "random", "mutated"]))
    if mode == "random":
        text = draw(st.text(alphabet=FORMAT_ALPHABET, max_size=40))
    else:
        kind, r = draw(rt_rankings(max_n=5))
        text = render(r, draw(st.sampled_from(["braces", "brackets", "tight"])), draw(st.sampled_from(["none", "name"])))
        for _ in range(draw(st.integers(1, 3))):
            if not text:
                break
            i = draw(st.integers(0, len(text) - 1))
            op = draw(st.integers(0, 2))
            c = draw(st.sampled_from(FORMAT_ALPHABET))
            if op == 0:
                text = text[:i] + text[i + 1:]
            elif op == 1:
                text = text[:i] + c + text[i:]
            else:
                text = text[:i] + c + text[i + 1:]
    return {"text": text, "mode": mode}


def total(fn, text, what):
    try:
        with lib.quiet():
            return fn(text)
    except ValueError:
        return None
    except Exception as e:  # noqa
        raise Violation("%s(%r) raised %s: %s (only ValueError is a documented refusal)" % (
            what, text, type(e).__name__, str(e)[:150]))


def check_text(case, ctx):
    text = case["text"]
    ctx.stats.case(case, sum(text.count(c) for c in "[]{}") >= 2, ["mode:" + case["mode"]])
    r = total(Ranking.from_string, text, "Ranking.from_string")
    total(parse_ranking_with_ties_of_str, text, "parse_ranking_with_ties_of_str")
    total(parse_ranking_with_ties_of_int, text, "parse_ranking_with_ties_of_int")
    if r is not None:
        from checks.c16 import check_ranking_views
        check_ranking_views(r, "Ranking.from_string(%r)" % text)


@st.composite
def filetext_cases(draw, tier):
    lines = []
    for _ in range(draw(st.integers(0, 4))):
        mode = draw(st.integers(0, 3))
        if mode == 0:
            lines.append(draw(st.text(alphabet=FORMAT_ALPHABET.replace("\n", ""), max_size=25)))
        elif mode == 3:
            # the lines a hand-edited file is full of: blank ones of every length, comments (also indented), lone
            # delimiters, a name with nothing after it
            lines.append(draw(st.sampled_from(["", " ", "  ", "   ", "    ", "\t", "\t\t\t", " \t  ", "%", "% c", "%%%",
                                               "  % indented", "[", "]", "[]", "{}", "[[]]", "[{}]", "r1 :", ":", " : ",
                                               "r1 : []", "[ ]", "[,]", ",,,"])))
        else:
            kind, r = draw(rt_rankings(max_n=4))
            lines.append(render(r, draw(st.sampled_from(["braces", "brackets"])), draw(st.sampled_from(["none", "name"]))))
    return {"content": draw(st.sampled_from(["\n", "\n", "\\\n", "\n\n"])).join(lines) + draw(st.sampled_from(["", "\n"]))}


def check_filetext(case, ctx):
    content = case["content"]
    ctx.stats.case(case, sum(content.count(c) for c in "[]{}") >= 2)
    tmp = scratch_dir()
    try:
        path = os.path.join(tmp, "in.txt")
        with open(path, "w", encoding="utf-8") as f:
            f.write(content)
        try:
            with lib.quiet():
                d = Dataset.from_file(path)
        except (ValueError, EmptyDatasetException):
            return
        except Exception as e:  # noqa
            raise Violation("Dataset.from_file on content %r raised %s: %s" % (content, type(e).__name__, str(e)[:150]))
    finally:
        shutil.rmtree(tmp, ignore_errors=True)
    from checks.c16 import check_dataset_views
    check_dataset_views(d, "Dataset.from_file(%r)" % content)


# ----------------------------------------------------------------------------------------------
def fuzz_text_oracle(text):
    """shared by the atheris target and by the replay of its findings"""
    class _C:
        class stats:
            @staticmethod
            def case(*a, **k):
                pass
    check_text({"text": text, "mode": "fuzz"}, _C)


def check_fuzz_input(case, ctx):
    ctx.stats.case(case, True, ["fuzz_replay"])
    fuzz_text_oracle(case["text"])


def run_fuzz(ctx):
    """atheris campaigns (shard 0 and 1 only: libFuzzer is single-core; empty corpus and seed corpus)"""
    if ctx.shard > 1:
        return
    target = os.path.join(harness.VERIF, "fuzz", "c18_fuzz.py")
    runs = 3000000 if ctx.tier == "thorough" else 150000
    corpus = tempfile.mkdtemp(prefix="corpus_", dir=os.path.join(harness.WORK))
    art = tempfile.mkdtemp(prefix="artifacts_", dir=os.path.join(harness.WORK))
    try:
        if ctx.shard == 1:
            ex = os.path.join(harness.REPO, "tests", "dataset_examples")
            k = 0
            if os.path.isdir(ex):
                for fn in sorted(os.listdir(ex)):
                    with open(os.path.join(ex, fn), encoding="utf-8", errors="ignore") as f:
                        for line in f.read().split("\n"):
                            if line.strip():
                                with open(os.path.join(corpus, "seed%d" % k), "w") as g:
                                    g.write(line)
                                k += 1
        env = dict(os.environ)
        env["C18_FUZZ_FINDINGS"] = os.path.join(art, "finding.json")
        left = max(20, ctx.deadline - __import__("time").time() - 10)
        cmd = [harness.python_exe(), target, "-runs=%d" % runs, "-seed=%d" % (ctx.seed + ctx.shard),
               "-max_len=64", "-max_total_time=%d" % int(left), "-artifact_prefix=" + art + "/", "-print_final_stats=1",
               corpus]
        try:
            p = subprocess.run(cmd, env=env, capture_output=True, text=True, timeout=left + 120)
            out = p.stdout + p.stderr
        except subprocess.TimeoutExpired as te:
            class _P:
                returncode = "timeout"
            p = _P()
            out = str(te)
        execs = 0
        for ln in out.splitlines():
            if "stat::number_of_executed_units" in ln:
                execs = int(ln.split(":")[-1])
        ctx.stats.extra["atheris_executions"] = execs
        ctx.stats.extra["atheris_corpus_files"] = len(os.listdir(corpus))
        ctx.stats.evaluations += execs
        ctx.stats.label("atheris:%s" % ("seed_corpus" if ctx.shard == 1 else "empty_corpus"))
        fpath = env["C18_FUZZ_FINDINGS"]
        if os.path.exists(fpath):
            with open(fpath) as f:
                finding = json.load(f)
            case = {"text": finding["text"], "mode": "fuzz"}
            ctx.last_failure = {"sub": "fuzz_replay", "case": case, "kind": "violation", "message": finding["message"]}
            raise Violation(finding["message"])
        if execs == 0:
            # the fuzzing engine is an addition to the Hypothesis sub-checks, which decide the property on their own:
            # if it cannot run here (wheel missing, start-up slower than the time left) this is recorded, not an error
            ctx.stats.label("atheris:did_not_run")
            ctx.stats.extra["atheris_note"] = "did not run: rc=%s %s" % (p.returncode, out[-300:].replace("\n", " "))
    finally:
        shutil.rmtree(corpus, ignore_errors=True)
        shutil.rmtree(art, ignore_errors=True)


def subchecks():
    return [HypSub("roundtrip_text", roundtrip_cases, check_roundtrip, 12000, 150000),
            HypSub("roundtrip_file", file_cases, check_file, 4000, 40000),
            HypSub("totality_text", text_cases, check_text, 40000, 600000),
            HypSub("totality_file", filetext_cases, check_filetext, 4000, 40000),
            CustomSub("atheris", run_fuzz),
            # replay entry for inputs found by atheris (never generates anything by itself)
            HypSub("fuzz_replay", lambda t: st.just({"text": "[[1],[2,3]]", "mode": "fuzz"}), check_fuzz_input, 16, 16)]
