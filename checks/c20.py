"""C20 — random dataset generators deliver valid datasets of the requested shape."""
import numpy as np
from hypothesis import strategies as st
from vlib import gen, lib, oracle
from vlib.harness import HypSub
from vlib.lib import Violation
from corankco import ranking as ranking_mod
from corankco.ranking import Ranking
from corankco.dataset import Dataset, EmptyDatasetException
from checks.c16 import check_ranking_views, check_dataset_views

META = {
    "level": "exploration",
    "engine": "hypothesis with the generators' RNG owned by the checker",
    "rule": "walks: (n, m, steps, complete) in [1..8] x ([1..5] + {6,7,10,13,15,19}) x {0,1,2,5,20,100,300} x {T,F}; the names randint and "
            "shuffle used by corankco.ranking are rebound to functions that follow a Hypothesis-drawn tape, so the "
            "whole Markov walk is the generated schedule (and shrinks); each of the six private moves is wrapped so "
            "that the dense-numbering invariant (ranked entries use exactly the ids 0..k-1, missing entries are -1) "
            "is checked after every single step. Single steps: each move called directly on generated dense states "
            "(any subset missing) with every applicable element. Results: non-empty disjoint buckets over int "
            "elements 0..n-1; complete => every ranking ranks all n elements, exactly m rankings, is_complete; "
            "incomplete => <= m rankings and EmptyDatasetException is the only admissible failure of "
            "get_random_dataset_markov; uniform permutations => m complete tie-free permutations of 1..n. "
            "Non-trivial: walk with >=20 effective moves covering >=5 of the 6 move kinds and ending with a "
            "multi-element bucket; single step on a state with >=2 multi-element buckets.",
    "assumptions": ["n = 0 and m = 0 have no documented behaviour and are not generated",
                    "if a refactor stops consulting the rebindable randint/shuffle the walks fall back to random.seed "
                    "(label rng_control:false)"],
    "budget_s": {"quick": 110, "thorough": 800},
}

# numbers of rankings beyond the handful every example uses (6, 7, 10, 13, 14, 15, 19 are the first m for which
# m * (1/m) != 1.0 in floating point)
M_LARGE = [6, 7, 10, 13, 15, 19]
MOVES = ["add_left", "add_right", "change_left", "change_right", "remove_element", "put_element_first"]


def move_fn(name):
    return getattr(Ranking, "_Ranking__" + name)


def dense_ok(arr):
    vals = [int(v) for v in arr]
    ranked = sorted(set(v for v in vals if v >= 0))
    return all(v >= -1 for v in vals) and ranked == list(range(len(ranked)))


class Tape:
    def __init__(self, tape):
        self.tape, self.pos, self.calls = list(tape), 0, 0
        # once the drawn tape is used up the walk continues with a linear congruential sequence seeded by the tape:
        # still a pure function of the generated case, but long walks do not degenerate to 'always element 0, move 1'
        self.lcg = (sum((i + 1) * v for i, v in enumerate(self.tape)) * 2654435761 + 12345) % (2 ** 31)

    def next(self):
        if self.pos < len(self.tape):
            v = self.tape[self.pos]
        else:
            self.lcg = (self.lcg * 1103515245 + 12345) % (2 ** 31)
            v = self.lcg >> 8
        self.pos += 1
        return v

    def randint(self, a, b):
        self.calls += 1
        return a + self.next() % (b - a + 1)

    def shuffle(self, lst):
        self.calls += 1
        # Fisher-Yates driven by the tape
        for i in range(len(lst) - 1, 0, -1):
            j = self.next() % (i + 1)
            lst[i], lst[j] = lst[j], lst[i]


class Patched:
    """rebinding of randint / shuffle in corankco.ranking and per-step wrapping of the six moves"""

    def __init__(self, tape):
        self.tape = Tape(tape)
        self.effective = 0
        self.kinds = set()
        self.violation = None
        self.rows = {}          # address of a ranking's row -> its state after the last move applied to it

    def __enter__(self):
        self.saved = {k: getattr(ranking_mod, k) for k in ("randint", "shuffle") if hasattr(ranking_mod, k)}
        for k in self.saved:
            setattr(ranking_mod, k, getattr(self.tape, k))
        self.saved_moves = {}
        for name in MOVES:
            attr = "_Ranking__" + name
            orig = Ranking.__dict__[attr]
            self.saved_moves[attr] = orig
            fn = orig.__func__ if isinstance(orig, staticmethod) else orig

            def wrapper(ranking, elem, _fn=fn, _name=name):
                before = ranking.copy()
                _fn(ranking, elem)
                self.rows[ranking.__array_interface__["data"][0]] = ranking.tolist()
                if not np.array_equal(before, ranking):
                    self.effective += 1
                    self.kinds.add(_name)
                if self.violation is None and (not dense_ok(ranking) or len(ranking) != len(before)
                                               or ranking.dtype != before.dtype):
                    self.violation = "move %s(elem=%d) turned %s into %s (ids must stay dense 0..k-1, -1 = missing)" % (
                        _name, elem, before.tolist(), ranking.tolist())
            setattr(Ranking, attr, staticmethod(wrapper))
        return self

    def __exit__(self, *a):
        for k, v in self.saved.items():
            setattr(ranking_mod, k, v)
        for attr, orig in self.saved_moves.items():
            setattr(Ranking, attr, orig)


@st.composite
def walk_cases(draw, tier):
    n = draw(st.sampled_from(list(range(1, 9))))
    m = draw(st.sampled_from(list(range(1, 6)) + M_LARGE))
    steps = draw(st.sampled_from([0, 1, 2, 5, 20, 100, 300] if m <= 5 else [0, 1, 2, 5, 20]))
    complete = draw(st.booleans())
    tape = draw(st.lists(st.integers(0, 239), min_size=0, max_size=min(2 * steps * m, 60)))
    return {"n": n, "m": m, "steps": steps, "complete": complete, "tape": tape,
            "via_dataset": draw(st.booleans())}


def check_walk(case, ctx):
    n, m, steps, complete = case["n"], case["m"], case["steps"], case["complete"]
    with Patched(case["tape"]) as p:
        try:
            with lib.quiet():
                if case["via_dataset"]:
                    d = Dataset.get_random_dataset_markov(n, m, steps, complete)
                    rankings = d.rankings
                else:
                    d = None
                    rankings = Ranking.generate_rankings(n, m, steps, complete)
            raised = None
        except Exception as e:  # noqa
            raised = e
    multi = False
    if raised is None:
        multi = any(len(b) > 1 for r in rankings for b in r.buckets)
    ctx.stats.case(case, p.effective >= 20 and len(p.kinds) >= 5 and multi,
                   ["complete:%s" % complete, "rng_control:%s" % str(p.tape.calls > 0 or steps == 0).lower(),
                    "kinds:%d" % len(p.kinds), "raised:%s" % (type(raised).__name__ if raised else "no")])
    if p.violation:
        raise Violation(p.violation)
    what = "generate(n=%d, m=%d, steps=%d, complete=%s)" % (n, m, steps, complete)
    # final state of every ranking of the walk: the rows the moves were applied to, the others are still [0..n-1]
    finals = list(p.rows.values()) + [list(range(n))] * max(0, m - len(p.rows))
    emptied = sum(1 for st_ in finals if all(v < 0 for v in st_))
    tracked = len(p.rows) <= m and (p.tape.calls > 0 or steps == 0)
    if raised is not None:
        if isinstance(raised, EmptyDatasetException) and not complete and case["via_dataset"]:
            # the only documented failure: EVERY ranking lost all its elements
            if tracked and emptied != m:
                raise Violation("%s raised EmptyDatasetException although %d of the %d rankings still rank elements "
                                "(final states %s)" % (what, m - emptied, m, finals))
            return
        raise Violation("%s raised %s: %s" % (what, type(raised).__name__, str(raised)[:200]))
    if tracked and not complete:
        # the rankings handed back are the final states of the walks, emptied ones left out
        def as_buckets(st_):
            out = {}
            for e, b in enumerate(st_):
                if b >= 0:
                    out.setdefault(b, []).append(e)
            return oracle.canon([out[b] for b in sorted(out)])
        from collections import Counter
        want = Counter(as_buckets(st_) for st_ in finals if any(v >= 0 for v in st_))
        got = Counter(oracle.canon(lib.model_of_ranking(r)) for r in rankings)
        if got != want:
            raise Violation("%s returned %s, the walks ended in the states %s" % (
                what, [lib.model_of_ranking(r) for r in rankings], finals))
    if complete and len(rankings) != m:
        raise Violation("%s returned %d rankings" % (what, len(rankings)))
    if len(rankings) > m:
        raise Violation("%s returned %d rankings, more than requested" % (what, len(rankings)))
    for k, r in enumerate(rankings):
        check_ranking_views(r, "%s ranking %d" % (what, k))
        seen = set()
        for b in r.buckets:
            if len(b) == 0:
                raise Violation("%s: empty bucket in %s" % (what, r))
            for e in b:
                v = lib.raw(e)
                if not isinstance(v, int) or isinstance(v, bool) or not 0 <= v < n:
                    raise Violation("%s: element %r is not an int in 0..%d" % (what, v, n - 1))
                seen.add(v)
        if complete and seen != set(range(n)):
            raise Violation("%s: ranking %s does not rank all of 0..%d" % (what, r, n - 1))
    if d is not None:
        check_dataset_views(d, what)
        if complete and (not d.is_complete or d.nb_rankings != m or d.nb_elements != n):
            raise Violation("%s: dataset has is_complete=%r, %d rankings, %d elements" % (
                what, d.is_complete, d.nb_rankings, d.nb_elements))


@st.composite
def step_cases(draw, tier):
    n = draw(st.sampled_from(list(range(1, 9))))
    # dense state by construction: a weak order of a subset
    mask = draw(st.lists(st.integers(0, 3), min_size=n, max_size=n))
    present = [i for i in range(n) if mask[i] > 0]
    order = draw(gen.weak_order_of(present))
    state = [-1] * n
    for bi, b in enumerate(order):
        for e in b:
            state[e] = bi
    return {"state": state, "move": draw(st.sampled_from(MOVES)), "elem": draw(st.integers(0, n - 1))}


def check_step(case, ctx):
    state, move, elem = case["state"], case["move"], case["elem"]
    sizes = {}
    for v in state:
        if v >= 0:
            sizes[v] = sizes.get(v, 0) + 1
    nt = sum(1 for c in sizes.values() if c > 1) >= 2
    applicable = (state[elem] == -1) if move == "put_element_first" else (state[elem] >= 0)
    ctx.stats.case(case, nt and applicable, ["move:" + move, "applicable" if applicable else "not_applicable"])
    if not applicable:
        return      # the walk never calls a move on an element in the wrong state
    arr = np.array(state, dtype=int)
    lib.must(move_fn(move), arr, elem)
    if not dense_ok(arr) or len(arr) != len(state):
        raise Violation("move %s(elem=%d) turned %s into %s (ids must stay dense 0..k-1, -1 = missing)" % (
            move, elem, state, arr.tolist()))
    after = arr.tolist()
    # nothing but the moved element changes its relative order / presence
    others = [i for i in range(len(state)) if i != elem]
    for i in others:
        if (state[i] == -1) != (after[i] == -1):
            raise Violation("move %s(elem=%d) changed the presence of element %d: %s -> %s" % (
                move, elem, i, state, after))
    for i in others:
        for j in others:
            if state[i] >= 0 and state[j] >= 0:
                if (state[i] < state[j]) != (after[i] < after[j]) or (state[i] == state[j]) != (after[i] == after[j]):
                    raise Violation("move %s(elem=%d) changed the relative order of %d and %d: %s -> %s" % (
                        move, elem, i, j, state, after))
    if move == "remove_element" and after[elem] != -1:
        raise Violation("remove_element(%d) left it ranked: %s -> %s" % (elem, state, after))
    if move == "put_element_first" and after[elem] != 0:
        raise Violation("put_element_first(%d): %s -> %s" % (elem, state, after))
    if move in ("add_left", "add_right", "change_left", "change_right") and after[elem] < 0:
        raise Violation("move %s(%d) removed the element: %s -> %s" % (move, elem, state, after))


@st.composite
def uniform_cases(draw, tier):
    n = draw(st.sampled_from(list(range(1, 10))))
    m = draw(st.sampled_from(list(range(1, 6)) + M_LARGE))
    return {"n": n, "m": m, "tape": draw(st.lists(st.integers(0, 239), max_size=min(n * m, 40))),
            "via_dataset": draw(st.booleans())}


def check_uniform(case, ctx):
    n, m = case["n"], case["m"]
    with Patched(case["tape"]) as p:
        with lib.quiet():
            if case["via_dataset"]:
                d = lib.must(Dataset.get_uniform_permutation_dataset, n, m)
                rankings = d.rankings
            else:
                d = None
                rankings = lib.must(Ranking.uniform_permutations, n, m)
    ctx.stats.case(case, n >= 3 and m >= 2, ["rng_control:%s" % str(p.tape.calls > 0).lower()])
    if len(rankings) != m:
        raise Violation("uniform permutations (n=%d, m=%d) returned %d rankings" % (n, m, len(rankings)))
    for r in rankings:
        check_ranking_views(r, "uniform permutation")
        flat = []
        for b in r.buckets:
            if len(b) != 1:
                raise Violation("uniform permutation %s has a tie or an empty bucket" % r)
            flat.append(lib.raw(next(iter(b))))
        if sorted(flat) != list(range(1, n + 1)):
            raise Violation("uniform permutation %s is not a permutation of 1..%d" % (r, n))
    if d is not None:
        check_dataset_views(d, "get_uniform_permutation_dataset(%d,%d)" % (n, m))
        if not d.is_complete or not d.without_ties or d.nb_elements != n:
            raise Violation("uniform permutation dataset: is_complete=%r without_ties=%r nb_elements=%d" % (
                d.is_complete, d.without_ties, d.nb_elements))


def subchecks():
    return [HypSub("walks", walk_cases, check_walk, 12000, 100000),
            HypSub("single_steps", step_cases, check_step, 30000, 600000),
            HypSub("uniform", uniform_cases, check_uniform, 3000, 30000)]
