"""C12 — Borda orders elements by mean positional score, per the documented variants."""
from fractions import Fraction
from hypothesis import strategies as st
from vlib import gen, lib, configs, oracle, mutate
from vlib.harness import HypSub
from vlib.lib import Violation
from checks.common_alg import well_formed
from checks.c10 import proportional
from corankco.algorithms.borda.borda import BordaCount
from corankco.algorithms.rank_aggregation_algorithm import ScoringSchemeNotHandledException

META = {
    "level": "exploration",
    "engine": "hypothesis (reference model + metamorphic relations)",
    "rule": "cases = (use_bucket_id, scheme, dataset): schemes = positive dyadic multiples of unifying, unifying(p=.5), "
            "induced, induced(p=.5), plus near-presets / free schemes for the refusal clause and for complete data. "
            "Oracle: exact rational mean, per element, of (number of elements strictly before | bucket index) over "
            "the rankings that count (unifying family: every ranking, missing elements as one last bucket; induced "
            "family: rankings that rank it); consensus == groups of equal mean in increasing order. Metamorphic: "
            "permuting the rankings and renaming the elements by a bijection give the same consensus modulo the "
            "renaming. Incomplete x scheme outside the four families => ScoringSchemeNotHandledException. "
            "Non-trivial: incomplete with ties, >=2 elements of equal mean and >=3 distinct means.",
    "assumptions": ["family membership decided by exact proportionality on all 12 penalties"],
    "budget_s": {"quick": 100, "thorough": 700},
    "floors": {"borda/incomplete": 0.3},
}

UNI = [gen.PRESETS["unifying"], gen.PRESETS["unifying_half"]]
IND = [gen.PRESETS["induced"], gen.PRESETS["induced_half"]]



@st.composite
def preludes(draw):
    """what the long-lived algorithm instance of a case did BEFORE the case's own dataset: nothing, or a run on another
    small dataset (tie-free and complete half of the time), under some scheme"""
    if draw(st.integers(0, 2)) == 0:
        return None
    shape = draw(st.sampled_from(["complete", "complete", "incomplete", "near_unanimous", "identical"]))
    ds = draw(gen.datasets(max_n=5, max_m=3, shapes=[shape], kinds=("dense", "str"), allow_empty_rankings=False))
    if draw(st.booleans()):
        ds["rankings"] = [[[e] for b in r for e in b] for r in ds["rankings"]]          # break every tie
    return {"rankings": ds["rankings"], "scheme": draw(gen.preset_multiples(["unifying", "induced", "unifying_half"]))}


def run_prelude(algs, prelude):
    if not prelude:
        return
    d0, s0 = lib.mk_dataset(prelude["rankings"]), lib.mk_scheme(prelude["scheme"])
    for a in algs:
        try:
            with lib.quiet():
                a.compute_consensus_rankings(d0, s0, True)
        except Exception:  # noqa  (a refusal of the prelude is not the subject)
            pass


@st.composite
def cases(draw, tier):
    big = tier == "thorough"
    fam = draw(st.sampled_from(["accepted", "accepted", "accepted", "near", "free"]))
    if fam == "accepted":
        scheme = draw(gen.preset_multiples(["unifying", "unifying_half", "induced", "induced_half"]))
    elif fam == "near":
        scheme = draw(gen.near_presets(["unifying", "unifying_half", "induced", "induced_half"]))
    else:
        scheme = draw(gen.dyadic_schemes())
    ds = draw(gen.datasets(max_n=15 if big else 8, max_m=7 if big else 5, many="thousand"))
    n = len(oracle.universe(ds["rankings"]))
    m = len(ds["rankings"])
    return {"scheme": scheme, "dataset": ds, "bucket_id": draw(st.booleans()), "family": fam,
            "perm": list(draw(st.permutations(list(range(m))))),
            "rename": list(draw(st.permutations(list(range(n))))),
            "flag": draw(st.booleans()), "prelude": draw(preludes()),
            "via_mutation": draw(mutate.via_strategy(ds["rankings"], p=4))}


@st.composite
def many_rankings_cases(draw, tier):
    """12-40 rankings of a few elements, very incomplete: equal exact means reached with different numbers of rankings
    (9/15 and 3/5), where the way the mean is computed in floating point matters"""
    n = draw(st.sampled_from([3, 4, 5, 6]))
    kind, names = draw(gen.element_names(n, ("dense", "str")))
    m = draw(st.sampled_from([12, 15, 15, 18, 20, 24, 30, 40]))
    base = [draw(gen.weak_order_of(names)) for _ in range(draw(st.sampled_from([2, 3, 4])))]
    rankings = []
    for k in range(m):
        r = base[draw(st.integers(0, len(base) - 1))]
        drop = draw(st.lists(st.integers(0, 2), min_size=n, max_size=n))
        gone = {e for e, q in zip(names, drop) if q == 0}
        rr = [b2 for b2 in ([e for e in b if e not in gone] for b in r) if b2]
        rankings.append(rr)
    if not any(b for r in rankings for b in r):
        rankings[0] = [[names[0]]]
    return {"scheme": draw(gen.preset_multiples(["induced", "induced_half", "unifying", "unifying_half"])),
            "dataset": {"rankings": rankings, "shape": "many_rankings", "kind": kind},
            "bucket_id": draw(st.booleans()), "family": "accepted", "perm": list(range(m)),
            "rename": list(range(len(oracle.universe(rankings)))), "flag": True, "prelude": None, "via_mutation": None}


def borda_reference(rankings, univ, unify, bucket_id):
    pts = {}
    for r in rankings:
        rr = oracle.unify(r, univ) if unify else r
        score = 0
        for b in rr:
            for e in b:
                p = pts.setdefault(e, [0, 0])
                p[0] += score
                p[1] += 1
            score += 1 if bucket_id else len(b)
    means = {e: Fraction(p[0], p[1]) for e, p in pts.items()}
    groups = {}
    for e, v in means.items():
        groups.setdefault(v, []).append(e)
    return [groups[k] for k in sorted(groups)], means


def check(case, ctx):
    # generation dominates the cost: the drawn scheme, then each accepted family scaled by a factor taken from the case
    # ONE instance per variant and ONE Dataset object serve the whole batch (state kept between runs must not leak)
    shared = {True: BordaCount(use_bucket_id=True), False: BordaCount(use_bucket_id=False)}
    run_prelude([shared[True], shared[False]], case.get("prelude"))
    first = lib.mk_scheme(case["scheme"])

    def warm(d0):
        for a in (shared[True], shared[False]):
            try:
                a.compute_consensus_rankings(d0, first, case["flag"])
            except Exception:  # noqa
                pass
    shared["d"] = mutate.build(case["dataset"]["rankings"], case.get("via_mutation"), warm)
    check_one(case, ctx, shared)
    if case.get("batched", True):
        k = gen.DYADIC_FACTORS[len(case["perm"]) % len(gen.DYADIC_FACTORS)]
        for fam in ("unifying", "unifying_half", "induced", "induced_half", "pseudodistance"):
            c = dict(case)
            c["scheme"] = gen.scale(gen.PRESETS[fam], k)
            c["family"] = "accepted" if fam != "pseudodistance" else "free"
            c["bucket_id"] = not case["bucket_id"] if fam in ("unifying_half", "induced") else case["bucket_id"]
            c["batched"] = False
            check_one(c, ctx, shared)


def check_one(case, ctx, shared=None):
    rankings, scheme = case["dataset"]["rankings"], case["scheme"]
    d, s = (shared["d"] if shared else lib.mk_dataset(rankings)), lib.mk_scheme(scheme)
    univ = oracle.universe(rankings)
    complete = gen.is_complete(rankings)
    uni = any(proportional(scheme, u) for u in UNI)
    ind = any(proportional(scheme, u) for u in IND)
    alg = shared[bool(case["bucket_id"])] if shared else BordaCount(use_bucket_id=case["bucket_id"])
    labels = gen.dataset_labels(case["dataset"]) + ["family:" + case["family"], "bucket_id:%s" % case["bucket_id"],
                                                     "uni" if uni else ("ind" if ind else "other")]
    try:
        with lib.quiet():
            val = alg.compute_consensus_rankings(d, s, case["flag"])
        raised = None
    except Exception as e:  # noqa
        raised = e
    if not complete and not uni and not ind:
        ctx.stats.case(case, case["family"] == "near", labels + ["expect:refusal"])
        if raised is None:
            raise Violation("Borda accepted an incomplete dataset under scheme %s, which is none of the four "
                            "accepted families: %s" % (scheme, val))
        if not isinstance(raised, ScoringSchemeNotHandledException):
            raise Violation("incomplete dataset, scheme outside the accepted families: refused with %s (%s) instead "
                            "of ScoringSchemeNotHandledException" % (type(raised).__name__, raised))
        return
    if raised is not None:
        ctx.stats.case(case, False, labels + ["expect:answer"])
        raise Violation("Borda raised %s: %s on a %s dataset under scheme %s" % (
            type(raised).__name__, raised, "complete" if complete else "incomplete", scheme))
    model = well_formed(val, rankings, case["flag"], "Borda")[0]
    want, means = borda_reference(rankings, univ, uni, case["bucket_id"])
    sizes = sorted(len(g) for g in want)
    nt = (not complete) and gen.has_ties(rankings) and len(want) >= 3 and sizes[-1] >= 2
    ctx.stats.case(case, nt, labels + ["expect:answer"])
    if oracle.canon(model) != oracle.canon(want):
        raise Violation("Borda(use_bucket_id=%s) returned %s; mean scores %s give %s" % (
            case["bucket_id"], model, {k: str(v) for k, v in means.items()}, want))
    # metamorphic: permute rankings, rename elements
    perm = [p for p in case["perm"] if p < len(rankings)]
    ren = case["rename"]
    if len(ren) == len(univ) and sorted(perm) == list(range(len(rankings))):
        names = sorted(univ, key=lambda v: (str(type(v)), v))
        mapping = {names[i]: names[ren[i]] for i in range(len(names))}
        r2 = [[[mapping[e] for e in b] for b in rankings[p]] for p in perm]
        val2 = lib.must(alg.compute_consensus_rankings, lib.mk_dataset(r2), s, case["flag"])
        model2 = well_formed(val2, r2, case["flag"], "Borda")[0]
        expect2 = [[mapping[e] for e in b] for b in model]
        if oracle.canon(model2) != oracle.canon(expect2):
            raise Violation("Borda is not invariant: %s -> %s, but after permuting the rankings by %s and renaming by "
                            "%s it returns %s" % (rankings, model, perm, mapping, model2))


def subchecks():
    return [HypSub("borda", cases, check, 12000, 150000),
            HypSub("many_rankings", many_rankings_cases, check, 2500, 30000)]
