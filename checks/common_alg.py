"""Shared pieces of the algorithm-level checks (C03, C04, C05, C06, C14): case strategy, running, well-formedness."""
from hypothesis import strategies as st
from vlib import gen, oracle, lib, configs, mutate
from vlib.lib import Violation


def size_limit(cfg, env, tier):
    big = tier == "thorough"
    if env == "standin" and (cfg.exact or cfg.family == "parcons"):
        return 6 if big else 5
    if cfg.exact or cfg.family == "parcons":
        return 8 if big else 6
    return 12 if big else 8


@st.composite
def alg_cases(draw, tier, pairs=None, schemes=None, shapes=None, kinds=None, flags=(True, False)):
    pairs = pairs or configs.PAIRS
    name, env = draw(st.sampled_from(pairs))
    cfg = configs.BY_NAME[name]
    scheme = draw(schemes if schemes is not None else gen.any_schemes())
    ds = draw(gen.datasets(max_n=size_limit(cfg, env, tier), max_m=6 if tier == "thorough" else 5, shapes=shapes,
                           kinds=kinds))
    flag = draw(st.sampled_from(list(flags)))
    rng = draw(st.integers(0, 2 ** 16)) if cfg.rng else 0
    # one case in four hands the algorithm a Dataset OBJECT that reached these rankings through an in-place mutation,
    # after having been used (by the same algorithm instance among others): see vlib/mutate.py
    via = draw(mutate.via_strategy(ds["rankings"]))
    # one case in three: the algorithm INSTANCE first serves a renamed copy of the same dataset (same shape, same cost
    # matrix, other names) or an unrelated small dataset - whatever it remembers must not leak into the case's run
    prelude = draw(st.sampled_from([None, None, None, None, "renamed", "renamed", "other", "reordered", "reordered"]))
    # the optional fourth argument of compute_consensus_rankings is public too ("may return additional information");
    # every property of the result holds with it as well
    bench = draw(st.sampled_from([False, False, False, True]))
    return {"config": name, "env": env, "scheme": scheme, "dataset": ds, "at_most_one": flag, "rng": rng,
            "via_mutation": via, "prelude": prelude, "bench_mode": bench}


def build_dataset(case, warm=None):
    via = case.get("via_mutation")
    if isinstance(via, list):          # replay files recorded with the first version of this option
        via = {"kind": "element", "pos": via, "where": 0}
    return mutate.build(case["dataset"]["rankings"], via, warm)


def renamed(rankings):
    """same rankings under other names (ints shifted, strings suffixed), element order inside buckets reversed"""
    def f(e):
        return e + 1000 if isinstance(e, int) else e + "'"
    return [[[f(e) for e in reversed(b)] for b in r] for r in rankings]


def run_prelude(alg, case, s):
    kind = case.get("prelude")
    if not kind:
        return
    if kind == "renamed":
        d0 = lib.mk_dataset(renamed(case["dataset"]["rankings"]))
    elif kind == "reordered":
        # the same rankings listed in the opposite order: an EQUAL dataset whose element ids differ
        d0 = lib.mk_dataset(list(reversed(case["dataset"]["rankings"])))
    else:
        d0 = lib.mk_dataset([[[1], [2, 3]], [[3], [1], [2]], [[2], [3]]])
    try:
        with lib.quiet():
            c0 = alg.compute_consensus_rankings(d0, s, case["at_most_one"])
            _ = c0.kemeny_score
    except Exception:  # noqa  (a refusal of the prelude is not the subject)
        pass


def run_case(case):
    """-> (status, consensus_or_exception, algorithm, dataset_obj, scheme_obj); unexpected library exceptions become
    Violations (undocumented failure mode)"""
    s = lib.mk_scheme(case["scheme"])
    cfg = configs.BY_NAME[case["config"]]
    import random

    def go():
        with configs.solver_env(case["env"]):
            alg = cfg.factory()

            def warm(d0):
                # the SAME algorithm instance is used on the dataset before its mutation
                alg.compute_consensus_rankings(d0, s, case["at_most_one"])
            run_prelude(alg, case, s)
            d = build_dataset(case, warm)
            random.seed(case.get("rng", 0))
            try:
                if case.get("bench_mode"):
                    cons = alg.compute_consensus_rankings(d, s, case["at_most_one"], True)
                else:
                    cons = alg.compute_consensus_rankings(d, s, case["at_most_one"])
            except configs.REFUSALS as e:
                return "refused", e, alg, d
            except configs.IncompatibleArgumentsException as e:
                return "usage", e, alg, d
            return "ok", cons, alg, d
    st_, (status, val, alg, d) = lib.call(go)
    return status, val, alg, d, s


def well_formed(cons, rankings, at_most_one, what="consensus"):
    """C03 predicate; returns the list of model rankings (normalized names)"""
    univ = set(oracle.universe(lib.normalized(rankings)))
    if not isinstance(cons, lib.Consensus):
        raise Violation("%s: result is a %s, not a Consensus" % (what, type(cons).__name__))
    crs = cons.consensus_rankings
    if not isinstance(crs, list) or len(crs) < 1:
        raise Violation("%s: no consensus ranking returned (%r)" % (what, crs))
    if at_most_one and len(crs) != 1:
        raise Violation("%s: %d consensus rankings returned although at most one was requested" % (what, len(crs)))
    out = []
    for r in crs:
        if not isinstance(r, lib.Ranking):
            raise Violation("%s: consensus ranking is a %s" % (what, type(r).__name__))
        seen = set()
        model = []
        for b in r.buckets:
            if len(b) == 0:
                raise Violation("%s: empty bucket in %s" % (what, r))
            mb = []
            for e in b:
                v = lib.raw(e)
                if e.type is not type(v):
                    raise Violation("%s: element %r declares type %s" % (what, v, e.type))
                if v in seen:
                    raise Violation("%s: element %r appears twice in %s" % (what, v, r))
                seen.add(v)
                mb.append(v)
            model.append(mb)
        if seen != univ:
            raise Violation("%s: ranked elements %s differ from the universe %s (missing %s, foreign %s)" % (
                what, sorted(seen, key=str), sorted(univ, key=str), sorted(univ - seen, key=str),
                sorted(seen - univ, key=str)))
        out.append(model)
    # the other public views of the same result say the same thing
    def view(f):
        return lib.must(f)
    nb, ln = view(lambda: cons.nb_consensus), view(lambda: len(cons))
    if nb != len(crs) or ln != len(crs):
        raise Violation("%s: nb_consensus = %r, len() = %r but %d consensus ranking(s) are held" % (what, nb, ln, len(crs)))
    its = view(lambda: list(iter(cons)))
    if len(its) != len(crs) or any(a is not b for a, b in zip(its, crs)) or view(lambda: cons[0]) is not crs[0]:
        raise Violation("%s: iterating / indexing the Consensus does not give its consensus_rankings" % what)
    els = view(lambda: cons.elements)
    if {lib.raw(e) for e in els} != univ or view(lambda: cons.nb_elements) != len(univ):
        raise Violation("%s: Consensus.elements = %s (nb_elements %r), the dataset's universe is %s" % (
            what, sorted((lib.raw(e) for e in els), key=str), cons.nb_elements, sorted(univ, key=str)))
    return out


def id_order_differs(model_ranking, rankings):
    """consensus order differs from first-appearance (id) order"""
    univ = oracle.universe(rankings)
    flat = [e for b in model_ranking for e in b]
    return flat != univ
