"""C09 — BioConsert is never worse than any of its starting points."""
import random
from hypothesis import strategies as st
from vlib import gen, lib, configs, oracle, mutate
from vlib.harness import HypSub
from vlib.lib import Violation
from checks.common_alg import well_formed
from corankco.algorithms.bioconsert.bioconsert import BioConsert
from corankco.algorithms.bioconsert.bioco import BioCo
from corankco.algorithms.borda.borda import BordaCount
from corankco.algorithms.copeland.copeland import CopelandMethod
from corankco.algorithms.kwiksort.kwiksortrandom import KwikSortRandom
from corankco.algorithms.pickaperm.pickaperm import PickAPerm
from corankco.algorithms.exact.exactalgorithmpulp import ExactAlgorithmPulp

META = {
    "level": "exploration",
    "engine": "hypothesis",
    "rule": "cases = (starter list in {none, [Borda], [Borda(bucket)], [Copeland], [KwikSort], [PickAPerm], [Borda, "
            "Copeland], [KwikSort, PickAPerm], [Copeland, KwikSort, Borda], lists with duplicates followed by an exact "
            "starter, five KwikSort restarts} each starter wrapped in a recording proxy, "
            "scheme, dataset biased to incomplete data and to first-appearance order unrelated to ranking order). "
            "No starters: exact score of the result <= score of every input ranking completed with its missing "
            "elements as a last bucket, and <= score of the all-tied ranking. Starters: <= score of each consensus the "
            "starter actually returned inside BioConsert. All returned rankings have the same score. Corollaries run "
            "directly: BioCo <= Borda, default BioConsert <= PickAPerm whenever PickAPerm accepts. Non-trivial: "
            "incomplete dataset or >=1 starter, n>=4, and the id order of the input dataset differs from the id order "
            "of a dataset built from the departure rankings.",
    "assumptions": ["dyadic schemes compared exactly, decimal ones with 1e-6"],
    "budget_s": {"quick": 180, "thorough": 1500},
    "floors": {"not_worse/incomplete": 0.4},
}

STARTERS = {
    "none": lambda: [],
    "borda": lambda: [BordaCount()],
    "borda_bucket": lambda: [BordaCount(use_bucket_id=True)],
    "copeland": lambda: [CopelandMethod()],
    "kwik": lambda: [KwikSortRandom()],
    "pick": lambda: [PickAPerm()],
    "borda_copeland": lambda: [BordaCount(), CopelandMethod()],
    "kwik_pick": lambda: [KwikSortRandom(), PickAPerm()],
    "cop_kwik_borda": lambda: [CopelandMethod(), KwikSortRandom(), BordaCount()],
    # starting points that coincide (the same algorithm twice, or algorithms that often agree) followed by a
    # different, strong one: the de-duplication of departure rankings must not lose the distinct one
    "borda_borda_exact": lambda: [BordaCount(), BordaCount(), ExactAlgorithmPulp()],
    "cop_cop_pick": lambda: [CopelandMethod(), CopelandMethod(), PickAPerm()],
    "borda_cop_exact": lambda: [BordaCount(), CopelandMethod(), ExactAlgorithmPulp()],
    "cop_borda_bucket_borda_kwik": lambda: [CopelandMethod(), BordaCount(True), BordaCount(), KwikSortRandom()],
    "exact_exact_borda": lambda: [ExactAlgorithmPulp(), ExactAlgorithmPulp(), BordaCount()],
    # the same randomised starter several times ("restarts"): instances that share class and name but return
    # different rankings - every one of them is a starting point
    "kwik_x5": lambda: [KwikSortRandom() for _ in range(5)],
    "kwik_x3_borda_x2": lambda: [KwikSortRandom(), BordaCount(True), KwikSortRandom(), BordaCount(), KwikSortRandom()],
}
SHAPES = ["incomplete", "incomplete", "sparse_block", "near_unanimous_incomplete", "cyclic_incomplete", "block_cyclic",
          "complete", "near_unanimous", "cyclic"]


def schemes():
    # starters such as Borda / PickAPerm only accept the unifying (and induced) families on incomplete data
    return st.one_of(gen.any_schemes(), gen.preset_multiples(["unifying", "unifying_half", "induced", "induced_half"]),
                     gen.preset_multiples(["unifying"]), gen.p_family_schemes(), gen.p_family_schemes())


@st.composite
def cases(draw, tier):
    big = tier == "thorough"
    starters = draw(st.sampled_from(sorted(STARTERS)))
    mx = (14 if big else 8) if "exact" not in starters else 7
    ds_ = draw(gen.datasets(max_n=mx, max_m=6, shapes=SHAPES + ["cyclic_ties", "mixture"]))
    return {"starters": starters, "scheme": draw(schemes()), "dataset": ds_,
            "via_mutation": draw(mutate.via_strategy(ds_["rankings"], p=5)),
            "prelude": draw(st.sampled_from([None, None, "reordered", "reordered", "renamed", "other"])),
            "at_most_one": draw(st.booleans()), "rng": draw(st.integers(0, 9999))}


def leq(a, b, scheme):
    return a <= b if lib.is_dyadic(scheme) else float(a) <= float(b) + 1e-6


def id_orders_differ(rankings, departures):
    return oracle.universe(rankings) != oracle.universe(departures)


def check(case, ctx):
    rankings, scheme = case["dataset"]["rankings"], case["scheme"]
    s = lib.mk_scheme(scheme)
    recs = [configs.Recorder(a) for a in STARTERS[case["starters"]]()]
    alg = BioConsert(recs) if recs else BioConsert()

    def run():
        def warm(d0):
            # the SAME BioConsert instance (and starters) is used on the dataset before its in-place mutation
            alg.compute_consensus_rankings(d0, s, case["at_most_one"])
        from checks.common_alg import run_prelude
        run_prelude(alg, {"prelude": case.get("prelude"), "dataset": case["dataset"],
                          "at_most_one": case["at_most_one"]}, s)
        d = mutate.build(rankings, case.get("via_mutation"), warm)
        for r in recs:
            del r.calls[:]
        random.seed(case["rng"])
        return alg.compute_consensus_rankings(d, s, case["at_most_one"])

    st_, val = lib.call(run, allowed=configs.REFUSALS)
    inst = oracle.Instance(rankings, scheme)
    univ = inst.elements
    labels = gen.dataset_labels(case["dataset"]) + ["starters:" + case["starters"], "status:" + st_]
    if st_ == "exc":
        ctx.stats.case(case, False, labels)
        return
    models = well_formed(val, rankings, case["at_most_one"], "BioConsert[%s]" % case["starters"])
    if recs:
        departures = []
        for r in recs:
            if len(r.calls) != 1:
                raise Violation("starter %s was called %d times" % (r.get_full_name(), len(r.calls)))
            cons = r.calls[0][1]
            departures.append(well_formed(cons, rankings, True, "starter " + r.get_full_name())[0])
    else:
        departures = [oracle.unify(r, univ) for r in rankings] + [[list(univ)]]
    nt = ((not gen.is_complete(rankings)) or bool(recs)) and inst.n >= 4 and id_orders_differ(rankings, departures)
    ctx.stats.case(case, nt, labels)
    scores = [inst.score(m) for m in models]
    for m, sc in zip(models, scores):
        if not (leq(sc, scores[0], scheme) and leq(scores[0], sc, scheme)):
            raise Violation("returned rankings do not share one score: %s scores %s, %s scores %s" % (
                models[0], scores[0], m, sc))
    for dep in departures:
        ds_ = inst.score(dep)
        if not leq(scores[0], ds_, scheme):
            raise Violation("BioConsert[%s] returned %s with score %s, worse than its starting point %s (score %s)" % (
                case["starters"], models[0], scores[0], dep, ds_))


@st.composite
def corollary_cases(draw, tier):
    big = tier == "thorough"
    which = draw(st.sampled_from(["bioco_vs_borda", "bioconsert_vs_pickaperm"]))
    if which == "bioco_vs_borda":
        scheme = draw(st.one_of(gen.preset_multiples(["unifying", "unifying_half", "induced", "induced_half"]),
                                gen.any_schemes()))
    else:
        scheme = draw(st.one_of(gen.preset_multiples(["unifying"]), gen.any_schemes()))
    return {"which": which, "scheme": scheme,
            "dataset": draw(gen.datasets(max_n=14 if big else 8, max_m=6, shapes=SHAPES))}


def check_corollary(case, ctx):
    rankings, scheme = case["dataset"]["rankings"], case["scheme"]
    d, s = lib.mk_dataset(rankings), lib.mk_scheme(scheme)
    inst = oracle.Instance(rankings, scheme)
    if case["which"] == "bioco_vs_borda":
        better, base, bn, sn = BioCo(), BordaCount(), "BioCo", "Borda"
    else:
        better, base, bn, sn = BioConsert(), PickAPerm(), "BioConsert", "PickAPerm"
    st1, v1 = lib.call(base.compute_consensus_rankings, d, s, True, allowed=configs.REFUSALS)
    if st1 == "exc":
        ctx.stats.case(case, False, ["which:" + case["which"], "base_refused"])
        return
    st2, v2 = lib.call(better.compute_consensus_rankings, d, s, True, allowed=configs.REFUSALS)
    ctx.stats.case(case, inst.n >= 4 and not gen.is_complete(rankings), ["which:" + case["which"], "status:" + st2])
    if st2 == "exc":
        return
    mb = well_formed(v1, rankings, True, sn)[0]
    mg = well_formed(v2, rankings, True, bn)[0]
    if not leq(inst.score(mg), inst.score(mb), scheme):
        raise Violation("%s returned %s (score %s), worse than %s's %s (score %s)" % (
            bn, mg, inst.score(mg), sn, mb, inst.score(mb)))


@st.composite
def cheap_tie_cases(draw, tier):
    """no starting algorithm, ties much cheaper than inversions, incomplete data with rankings made of ONE bucket
    that do not cover the universe: the regime in which the all-tied departure ranking is the one that matters"""
    p = draw(st.sampled_from([0.0625, 0.125, 0.25, 0.25, 0.375]))
    fam = draw(st.sampled_from(["unifying", "unifying", "pseudodistance", "free"]))
    if fam == "unifying":
        scheme = [[0., 1., p, 0., 1., p], [p, p, 0., p, p, 0.]]
    elif fam == "pseudodistance":
        scheme = [[0., 1., p, 0., 1., 0.], [p, p, 0., p, p, 0.]]
    else:
        scheme = draw(gen.free_schemes())
        scheme[1][0] = scheme[1][1] = p * scheme[0][1]
    ds = draw(gen.datasets(max_n=7, min_n=3, max_m=4, shapes=["incomplete", "sparse_block", "cyclic_incomplete",
                                                              "near_unanimous_incomplete"],
                           kinds=("dense", "str"), allow_empty_rankings=False))
    univ = oracle.universe(ds["rankings"])
    for _ in range(draw(st.sampled_from([1, 1, 2]))):
        mask = draw(st.lists(st.booleans(), min_size=len(univ), max_size=len(univ)))
        bucket = [e for e, k in zip(univ, mask) if k] or univ[:1]
        ds["rankings"].insert(draw(st.integers(0, len(ds["rankings"]))), [bucket])
    return {"starters": "none", "scheme": scheme, "dataset": ds, "via_mutation": None, "prelude": None,
            "at_most_one": draw(st.booleans()), "rng": 0}


@st.composite
def election_cases(draw, tier):
    """a few distinct ballots with multiplicities in the hundreds: scores in the thousands, where absolute and
    relative tolerances on scores part ways (distinct local optima whose scores differ by less than 0.1 %)"""
    starters = draw(st.sampled_from(["none", "none", "none", "borda_copeland", "cop_kwik_borda", "kwik"]))
    scheme = draw(st.one_of(gen.any_schemes(), gen.preset_multiples(["unifying", "pseudodistance", "induced"])))
    if draw(st.booleans()):
        ds = draw(gen.datasets(max_n=8, min_n=5, max_m=4, shapes=["election"], kinds=("dense", "str"),
                               allow_empty_rankings=False, allow_duplicates=False))
    else:
        ds = draw(gen.datasets(max_n=30, min_n=18, max_m=4, shapes=["large_uniform"], kinds=("dense", "mult8"),
                               allow_empty_rankings=False, allow_duplicates=False))
    return {"starters": starters, "scheme": scheme, "dataset": ds,
            "at_most_one": draw(st.booleans()), "rng": draw(st.integers(0, 9999))}


@st.composite
def padded_cases(draw, tier):
    """a small instance (the part where the local search can get stuck) embedded in the middle of more than a thousand
    elements that every ranking orders the same way: sizes at which array printing, recursion limits, dtype widths ...
    start to matter, while the difficulty stays that of the small instance"""
    core = draw(gen.datasets(max_n=7, min_n=3, max_m=5, kinds=("dense",), allow_empty_rankings=False,
                             shapes=["cyclic", "cyclic_ties", "block_cyclic", "mixture", "incomplete", "complete",
                                     "near_unanimous", "cyclic_incomplete"]))
    return {"core": core, "pad": draw(st.sampled_from([500, 505, 520])),
            "scheme": draw(st.one_of(gen.preset_multiples(["unifying", "unifying_half", "induced"]),
                                     gen.tie_averse_schemes(), gen.free_schemes())),
            "starters": draw(st.sampled_from(["none", "none", "kwik_x5", "borda_copeland"])),
            "rng": draw(st.integers(0, 9999))}


def check_padded(case, ctx):
    pad, core = case["pad"], case["core"]["rankings"]
    head = [[1000 + i] for i in range(pad)]
    tail = [[5000 + i] for i in range(pad)]
    rankings = [head + [list(b) for b in r] + tail for r in core]
    d, s = lib.mk_dataset(rankings), lib.mk_scheme(case["scheme"])
    recs = [configs.Recorder(a) for a in STARTERS[case["starters"]]()]
    alg = BioConsert(recs) if recs else BioConsert()
    random.seed(case["rng"])
    st_, val = lib.call(alg.compute_consensus_rankings, d, s, True, allowed=configs.REFUSALS)
    n = 2 * pad + len(oracle.universe(core))
    ctx.stats.case(case, st_ == "ok" and not gen.is_complete(core), ["starters:" + case["starters"], "status:" + st_,
                                                                       "n:%d" % n])
    if st_ != "ok":
        return
    crs = val.consensus_rankings
    if len(crs) != 1 or sorted(lib.raw(e) for b in crs[0].buckets for e in b) != sorted(
            lib.raw(e) for e in d.universe):
        raise Violation("BioConsert on %d elements: the consensus does not rank exactly the universe" % n)
    # at this size the scorer is the library's own routine (C01 validates it up to 100 000 elements)
    kc = lib.KemenyComputingFactory(s)
    got = float(lib.must(kc.get_kemeny_score, crs[0], d))
    if recs:
        deps = [r.calls[0][1].consensus_rankings[0] for r in recs if r.calls]
    else:
        deps = list(lib.must(d.unified_rankings))
    for dep in deps:
        ds_ = float(lib.must(kc.get_kemeny_score, dep, d))
        if got > ds_ + 1e-6 * max(1.0, abs(ds_)):
            core_view = [[lib.raw(e) for e in b] for b in dep.buckets if not any(lib.raw(e) >= 1000 for e in b)]
            raise Violation("BioConsert[%s] on %d elements (a core of %d embedded in %d unanimous ones) returned a "
                            "ranking of score %r, worse than its starting point of score %r (core part %s)" % (
                                case["starters"], n, n - 2 * pad, 2 * pad, got, ds_, core_view))


def subchecks():
    return [HypSub("not_worse", cases, check, 10000, 150000),
            HypSub("cheap_ties", cheap_tie_cases, check, 6000, 60000),
            HypSub("large_multiplicities", election_cases, check, 500, 6000),
            HypSub("corollaries", corollary_cases, check_corollary, 6000, 60000),
            HypSub("padded_large", padded_cases, check_padded, 200, 6000)]
