"""C06 — ParCons: the partition admits an optimal consensus; the optimality flag is truthful."""
import random
from hypothesis import strategies as st
from vlib import gen, lib, configs, oracle, mutate
from vlib.harness import HypSub
from vlib.lib import Violation
from checks.common_alg import alg_cases, run_case, well_formed
from corankco.partitioning.ordered_partition import OrderedPartition
from corankco.algorithms.parcons.parcons import ParCons
from corankco.algorithms.bioconsert.bioconsert import BioConsert
from corankco.algorithms.bioconsert.bioco import BioCo
from corankco.algorithms.kwiksort.kwiksortrandom import KwikSortRandom
from corankco.algorithms.copeland.copeland import CopelandMethod

META = {
    "level": "exploration",
    "engine": "hypothesis (differential against an independent exact optimiser)",
    "rule": "(a) parcons_partition on generated (scheme, dataset): groups non-empty, disjoint, union == universe, and "
            "min score over rankings consistent with it (per-group subset DP under the full instance's costs + "
            "cross-group 'before' costs) == global DP optimum. (b) ParCons over the grid bound_for_exact in "
            "{0,1,2,3,80} x auxiliary in {default BioConsert, KwikSort, Copeland, BioCo} (wrapped in a recording "
            "proxy) x solver environment: consensus well-formed, consistent with the partition by the reference "
            "predicate, features[WEAK_PARTITIONING] == the partition in the same order, necessarily_optimal == (proxy "
            "never called). (c) every configuration of the registry: necessarily_optimal => score == DP optimum. "
            "Non-trivial: >=2 components, one of size >=2 that cannot be all tied, and some ranking ranks no element "
            "of that component.",
    "assumptions": ["stand-in solver for CPLEX paths", "decimal schemes: optimum compared with tolerance 1e-6",
                    "optimality decided up to n<=8 (partition) / n<=7 (ParCons without CPLEX) / n<=6 (stand-in)"],
    "budget_s": {"quick": 120, "thorough": 900},
    "floors": {"partition/components>=2": 0.15, "parcons_grid/components>=2": 0.15},
}

SHAPES = ["sparse_block", "sparse_block", "block_cyclic", "block_cyclic", "block_cyclic", "near_unanimous",
          "near_unanimous_incomplete", "incomplete", "cyclic_incomplete", "complete", "identical", "cyclic_ties",
          "mixture"]
AUX = ["default", "kwik", "copeland", "bioco"]
BOUNDS = [0, 1, 2, 3, 80]


def schemes():
    return st.one_of(gen.free_schemes(), gen.free_schemes(), gen.tie_averse_schemes(), gen.tie_averse_schemes(),
                     gen.tie_averse_schemes(), gen.preset_multiples(), gen.near_presets(), gen.decimal_schemes(),
                     gen.scaled_schemes(), gen.scaled_schemes())


def classify(inst, rankings):
    comps = oracle.graph_components(inst)
    hard_missing = False
    hard = False
    for comp in comps:
        if len(comp) >= 2 and not oracle.can_be_all_tied(inst, comp):
            hard = True
            els = {inst.elements[i] for i in comp}
            if any(not any(e in els for b in r for e in b) for r in rankings):
                hard_missing = True
    labs = ["components>=2" if len(comps) >= 2 else "components=1", "hard" if hard else "no_hard_component"]
    if hard_missing:
        labs.append("hard_component_missed_by_a_ranking")
    return len(comps) >= 2 and hard_missing, labs


def model_partition(part, what):
    """library partition (list/iterable of sets of Elements) -> list of lists of raw names, validated as a partition"""
    out, seen = [], set()
    for g in part:
        mg = [lib.raw(e) for e in g]
        if not mg:
            raise Violation("%s has an empty group" % what)
        for e in mg:
            if e in seen:
                raise Violation("%s: element %r is in two groups" % (what, e))
            seen.add(e)
        out.append(mg)
    return out, seen


def partition_views(part, what):
    """the accessors of an OrderedPartition describe the same partition as its `partition` list"""
    groups = list(part.partition)
    if [g for g in lib.must(lambda: list(iter(part)))] != groups:
        raise Violation("%s: iterating gives other groups than .partition" % what)
    union = set()
    for g in groups:
        union |= set(g)
    els = lib.must(lambda: part.elements)
    if set(els) != union or lib.must(lambda: part.nb_elements) != len(union):
        raise Violation("%s: elements / nb_elements (%s, %r) disagree with the groups %s" % (
            what, sorted((lib.raw(e) for e in els), key=str), part.nb_elements, groups))
    where = {}
    for i, g in enumerate(groups):
        if lib.must(part.get_group_index, i) != g:
            raise Violation("%s: get_group_index(%d) is not group %d" % (what, i, i))
        for e in g:
            where[e] = i
            if lib.must(part.which_index_is, e) != i:
                raise Violation("%s: which_index_is(%r) = %r, the element is in group %d" % (
                    what, lib.raw(e), part.which_index_is(e), i))
    flat = list(where)
    for a in flat[:6]:
        for b in flat[:6]:
            if bool(lib.must(part.in_same_group, a, b)) != (where[a] == where[b]):
                raise Violation("%s: in_same_group(%r, %r) = %r but their groups are %d and %d" % (
                    what, lib.raw(a), lib.raw(b), part.in_same_group(a, b), where[a], where[b]))
    if lib.must(part.which_index_is, lib.Element("no such element")) != -1:
        raise Violation("%s: which_index_is of a foreign element is not -1" % what)


def same_value(a, b, scheme):
    return a == b if lib.is_dyadic(scheme) else abs(float(a) - float(b)) <= 1e-6


@st.composite
def partition_cases(draw, tier):
    scheme = draw(schemes())
    ds = draw(gen.datasets(max_n=9 if tier == "thorough" else 7, max_m=5, shapes=SHAPES))
    return {"scheme": scheme, "dataset": ds}


def check_partition(case, ctx):
    rankings, scheme = case["dataset"]["rankings"], case["scheme"]
    d, s = lib.mk_dataset(rankings), lib.mk_scheme(scheme)
    inst = oracle.Instance(rankings, scheme)
    nt, labs = classify(inst, rankings)
    ctx.stats.case(case, nt, labs + gen.dataset_labels(case["dataset"]) + gen.scheme_labels(scheme))
    part = lib.must(OrderedPartition.parcons_partition, d, s)
    groups, seen = model_partition(part.partition, "ParCons partition")
    partition_views(part, "ParCons partition")
    if seen != set(inst.elements):
        raise Violation("ParCons partition covers %s, universe is %s" % (sorted(seen, key=str), inst.elements))
    best = inst.sc.to_fraction(inst.best_consistent_scaled(groups))
    opt = inst.optimum()
    if not same_value(best, opt, scheme):
        raise Violation("no optimal consensus is consistent with the ParCons partition %s: best consistent score %s, "
                        "optimum %s" % (groups, best, opt))


def make_aux(kind):
    if kind == "default":
        return BioConsert()
    if kind == "kwik":
        return KwikSortRandom()
    if kind == "copeland":
        return CopelandMethod()
    return BioCo()


@st.composite
def grid_cases(draw, tier):
    env = draw(st.sampled_from(["absent", "absent", "standin"]))
    scheme = draw(schemes())
    mx = (6 if env == "standin" else 7) if tier == "thorough" else (5 if env == "standin" else 6)
    ds = draw(gen.datasets(max_n=mx, max_m=5, shapes=SHAPES))
    return {"scheme": scheme, "dataset": ds, "env": env, "aux": draw(st.sampled_from(AUX)),
            "bound": draw(st.sampled_from(BOUNDS)), "rng": draw(st.integers(0, 9999)),
            "at_most_one": draw(st.booleans()), "via_mutation": draw(mutate.via_strategy(ds["rankings"], p=4))}


def check_grid(case, ctx):
    rankings, scheme = case["dataset"]["rankings"], case["scheme"]
    s = lib.mk_scheme(scheme)
    inst = oracle.Instance(rankings, scheme)
    nt, labs = classify(inst, rankings)
    rec = configs.Recorder(make_aux(case["aux"]))
    box = {}

    def run():
        with configs.solver_env(case["env"]):
            alg = ParCons(auxiliary_algorithm=rec, bound_for_exact=case["bound"])

            def warm(d0):
                # the SAME ParCons instance (and auxiliary) is used on the dataset before its in-place mutation
                alg.compute_consensus_rankings(d0, s, case["at_most_one"])
            box["d"] = mutate.build(rankings, case.get("via_mutation"), warm)
            del rec.calls[:]
            random.seed(case["rng"])
            return alg.compute_consensus_rankings(box["d"], s, case["at_most_one"])

    st_, val = lib.call(run, allowed=configs.REFUSALS)
    d = box.get("d") or lib.mk_dataset(rankings)
    comps = oracle.graph_components(inst)
    hard_sizes = [len(c) for c in comps if len(c) >= 2 and not oracle.can_be_all_tied(inst, c)]
    mixed = any(x > case["bound"] for x in hard_sizes) and any(x <= case["bound"] for x in hard_sizes)
    ctx.stats.case(case, nt or mixed, labs + ["aux:" + case["aux"], "bound:%d" % case["bound"], "env:" + case["env"],
                                              "status:" + st_, "aux_called" if rec.calls else "aux_not_called",
                                              "mixed_delegation" if mixed else "not_mixed"])
    if st_ == "exc":
        return
    models = well_formed(val, rankings, case["at_most_one"], "ParCons")
    part = lib.must(OrderedPartition.parcons_partition, d, s)
    groups, _ = model_partition(part.partition, "ParCons partition")
    if not oracle.consistent(groups, models[0]):
        raise Violation("ParCons consensus %s does not respect the ParCons partition %s" % (models[0], groups))
    wp = val.features.get(lib.ConsensusFeature.WEAK_PARTITIONING)
    if wp is None:
        raise Violation("ParCons consensus has no weak partitioning feature")
    wgroups, _ = model_partition(wp, "reported weak partitioning")
    if [frozenset(g) for g in wgroups] != [frozenset(g) for g in groups]:
        raise Violation("reported weak partitioning %s differs from parcons_partition %s" % (wgroups, groups))
    flag = val.necessarily_optimal
    if flag is not (len(rec.calls) == 0):
        raise Violation("necessarily_optimal=%r but the auxiliary algorithm was called %d time(s) (bound %d, "
                        "partition %s)" % (flag, len(rec.calls), case["bound"], groups))
    if flag:
        sc, opt = inst.score(models[0]), inst.optimum()
        if not same_value(sc, opt, scheme):
            raise Violation("ParCons (aux %s, bound %d, cplex %s) flags %s necessarily optimal with score %s; optimum "
                            "is %s" % (case["aux"], case["bound"], case["env"], models[0], sc, opt))
    # sub-problems handed to the auxiliary algorithm are components that exceed the bound
    for sub_d, _ in rec.calls:
        if sub_d.nb_elements <= case["bound"]:
            raise Violation("auxiliary algorithm called on a component of %d elements although bound_for_exact=%d"
                            % (sub_d.nb_elements, case["bound"]))


@st.composite
def two_hard_cases(draw, tier):
    """several Condorcet blocks in a common order (components of 3-5 elements that cannot be all tied) and an exact
    bound between the block sizes: some components are delegated and others solved exactly, in either order"""
    scheme = draw(st.one_of(gen.tie_averse_schemes(), gen.tie_averse_schemes(), gen.preset_multiples(["unifying",
                            "pseudodistance", "extended"])))
    sizes = draw(st.sampled_from([[4, 3], [3, 4], [4, 3, 3], [3, 4, 3], [3, 3, 4], [5, 3], [3, 5], [4, 4], [3, 3]]))
    kind, names = draw(gen.element_names(sum(sizes), ("dense", "mult8", "str")))
    blocks, pos = [], 0
    for sz in sizes:
        blocks.append(names[pos:pos + sz])
        pos += sz
    m = draw(st.sampled_from([3, 4, 5]))
    rankings = []
    for k in range(m):
        r = []
        for blk in blocks:
            if draw(st.integers(0, 7)) == 0:
                continue            # this ranking misses the whole component
            sh = k % len(blk)
            r.extend([[e] for e in blk[sh:] + blk[:sh]])
        if draw(st.integers(0, 5)) == 0:
            r = draw(gen.perturb(r, 1))
        rankings.append(r)
    if not any(b for r in rankings for b in r):
        rankings[0] = [[e] for e in names]
    return {"scheme": scheme, "dataset": {"rankings": rankings, "shape": "condorcet_blocks", "kind": kind},
            "env": "absent", "aux": draw(st.sampled_from(AUX)), "bound": draw(st.sampled_from([3, 3, 4])),
            "rng": draw(st.integers(0, 9999)), "at_most_one": True}


@st.composite
def reuse_cases(draw, tier):
    """ONE ParCons instance serves several datasets; every result is examined AFTER all the runs"""
    runs = []
    for _ in range(draw(st.sampled_from([2, 2, 3]))):
        if draw(st.booleans()):
            c = draw(two_hard_cases(tier))
            runs.append({"dataset": c["dataset"], "scheme": c["scheme"]})
        else:
            runs.append({"dataset": draw(gen.datasets(max_n=6, max_m=5, shapes=SHAPES)), "scheme": draw(schemes())})
    return {"runs": runs, "aux": draw(st.sampled_from(AUX)), "bound": draw(st.sampled_from([0, 2, 3, 80])),
            "rng": draw(st.integers(0, 9999))}


def check_reuse(case, ctx):
    rec = configs.Recorder(make_aux(case["aux"]))
    results = []
    with configs.solver_env("absent"):
        alg = ParCons(auxiliary_algorithm=rec, bound_for_exact=case["bound"])
        for k, r in enumerate(case["runs"]):
            d, s = lib.mk_dataset(r["dataset"]["rankings"]), lib.mk_scheme(r["scheme"])
            before = len(rec.calls)
            random.seed(case["rng"] + k)
            st_, val = lib.call(alg.compute_consensus_rankings, d, s, True, allowed=configs.REFUSALS)
            results.append((st_, val, d, s, len(rec.calls) - before, r))
    answered = [x for x in results if x[0] == "ok"]
    delegated = [x[4] > 0 for x in answered]
    ctx.stats.case(case, len(answered) >= 2 and len(set(delegated)) == 2,
                   ["answered:%d" % len(answered), "mixed_flags" if len(set(delegated)) == 2 else "same_flags"])
    for st_, val, d, s, ncalls, r in answered:
        rankings, scheme = r["dataset"]["rankings"], r["scheme"]
        models = well_formed(val, rankings, True, "ParCons (reused instance)")
        flag = val.necessarily_optimal
        if flag is not (ncalls == 0):
            raise Violation("ParCons instance reused for %d datasets: the consensus of dataset %s has "
                            "necessarily_optimal=%r although the auxiliary algorithm was called %d time(s) for it" % (
                                len(case["runs"]), rankings, flag, ncalls))
        part = lib.must(OrderedPartition.parcons_partition, d, s)
        groups, _ = model_partition(part.partition, "ParCons partition")
        wgroups, _ = model_partition(val.features.get(lib.ConsensusFeature.WEAK_PARTITIONING) or [],
                                     "reported weak partitioning")
        if [frozenset(g) for g in wgroups] != [frozenset(g) for g in groups]:
            raise Violation("ParCons instance reused: the consensus of dataset %s reports the weak partitioning %s, "
                            "its partition is %s" % (rankings, wgroups, groups))
        if flag:
            inst = oracle.Instance(rankings, scheme)
            if not same_value(inst.score(models[0]), inst.optimum(), scheme):
                raise Violation("ParCons instance reused: %s flagged necessarily optimal with score %s, optimum %s" % (
                    models[0], inst.score(models[0]), inst.optimum()))


def any_cases(tier):
    return alg_cases(tier, shapes=SHAPES, schemes=schemes())


def check_flag_any(case, ctx):
    rankings, scheme = case["dataset"]["rankings"], case["scheme"]
    status, val, alg, d, s = run_case(case)
    if status != "ok":
        ctx.stats.case(case, False, ["status:" + status])
        return
    models = well_formed(val, rankings, case["at_most_one"], case["config"])
    flag = val.necessarily_optimal
    inst = oracle.Instance(rankings, scheme)
    nt, labs = classify(inst, rankings)
    ctx.stats.case(case, nt and bool(flag), labs + ["cfg:" + case["config"], "flag:%s" % bool(flag)])
    if flag:
        opt = inst.optimum()
        for m in models:
            sc = inst.score(m)
            if not same_value(sc, opt, scheme):
                raise Violation("%s (cplex %s) flags %s necessarily optimal with score %s; optimum is %s" % (
                    case["config"], case["env"], m, sc, opt))


def subchecks():
    return [HypSub("partition", partition_cases, check_partition, 12000, 120000),
            HypSub("parcons_grid", grid_cases, check_grid, 8000, 80000),
            HypSub("parcons_mixed_delegation", two_hard_cases, check_grid, 3000, 40000),
            HypSub("instance_reuse", reuse_cases, check_reuse, 800, 12000),
            HypSub("flag_any_algorithm", any_cases, check_flag_any, 6000, 60000)]
