"""C15 — computing a consensus never modifies its inputs; results are repeatable."""
import random
import sys
import numpy as np
from hypothesis import strategies as st
from hypothesis.stateful import RuleBasedStateMachine, rule, initialize, invariant, precondition
from vlib import gen, lib, configs, oracle, harness
from vlib.harness import MachineSub
from vlib.lib import Violation
from corankco.partitioning.ordered_partition import OrderedPartition

META = {
    "level": "exploration",
    "engine": "hypothesis stateful (RuleBasedStateMachine) with a deep-snapshot invariant and a fresh-copy differential",
    "rule": "histories: @initialize draws a raw dataset and scheme and builds the shared Dataset / ScoringScheme; rules "
            "(arguments drawn) run any registry configuration in either solver environment with either flag, read "
            "kemeny_score / description / str of any consensus obtained so far, compute the ParCons / ParFront "
            "partitions, score a drawn candidate, read dataset views (positions, bucket ids, unified rankings / "
            "dataset, projections, description) and scheme operations (scaling, description, nickname, equivalence). "
            "After every step: the deep snapshot of dataset (buckets, positions, lengths, both id maps in order, "
            "flags, name, counts, universe) and scheme equals the initial one; every rule's result equals the result "
            "of the same call on fresh objects built from the raw data; non-KwikSort configurations called twice give "
            "equal consensus rankings. Non-trivial: history with >=4 steps including >=2 different algorithm runs and "
            ">=1 score/partition read between them, on an incomplete dataset with ties.",
    "assumptions": ["KwikSort is made repeatable by random.seed(k) with k drawn by Hypothesis before the shared and the "
                    "fresh run", "stand-in solver for CPLEX paths"],
    "budget_s": {"quick": 120, "thorough": 900},
}

RUN_PAIRS = configs.PAIRS
VIEWS = ["positions", "bucket_ids", "unified_rankings", "unified_dataset", "sub_problem", "description", "str",
         "iterate"]
SCHEME_OPS = ["mul", "description", "nickname", "equivalent", "str", "getitem"]


def elem_key(e):
    return (type(e.value).__name__, e.value)


def snapshot(d, s):
    rk = []
    for r in d.rankings:
        rk.append((tuple(tuple(sorted(elem_key(e) for e in b)) for b in r.buckets),
                   tuple(sorted((elem_key(e), p) for e, p in r.positions.items())), len(r), r.nb_elements))
    return {
        "rankings": tuple(rk),
        "elem_id": tuple((elem_key(e), i) for e, i in d.mapping_elem_id.items()),
        "id_elem": tuple((i, elem_key(e)) for i, e in d.mapping_id_elem.items()),
        "flags": (d.is_complete, d.without_ties, d.name, d.nb_elements, d.nb_rankings),
        "universe": tuple(sorted(elem_key(e) for e in d.universe)),
        "scheme": (tuple(s.penalty_vectors[0]), tuple(s.penalty_vectors[1]), tuple(s.b_vector), tuple(s.t_vector),
                   len(s.penalty_vectors)),
    }


def cons_view(c):
    return [oracle.canon(lib.model_of_ranking(r)) for r in c.consensus_rankings]


class Interp:
    """executes a history on shared objects, comparing every step with fresh copies"""

    def __init__(self, init):
        self.raw, self.scheme = init["rankings"], init["scheme"]
        self.d = lib.mk_dataset(self.raw, name="shared")
        self.s = lib.mk_scheme(self.scheme)
        self.snap0 = snapshot(self.d, self.s)
        self.consensus = []
        self.instances = {}
        # after a USER mutation the element ids of the shared dataset may legitimately differ from those of a dataset
        # built directly from the same rankings (ids are only promised to be a bijection): from then on only
        # id-independent facts are compared with fresh copies
        self.mutated = False
        self.steps = 0
        self.runs = []
        # what each (configuration, flag) returned the FIRST time it was run on the current shared inputs: whatever
        # happens in between (other runs, runs under a multiple of the scheme, reads), the same call gives it again
        self.first = {}

    def fresh(self):
        return lib.mk_dataset(self.raw, name="shared"), lib.mk_scheme(self.scheme)

    def check_unchanged(self, after):
        now = snapshot(self.d, self.s)
        if now != self.snap0:
            diff = [k for k in now if now[k] != self.snap0[k]]
            raise Violation("inputs were modified by %s: changed %s; before %s after %s" % (
                after, diff, {k: self.snap0[k] for k in diff}, {k: now[k] for k in diff}))

    def _run(self, op, d, s, shared=False, reseed=0):
        with configs.solver_env(op["env"]):
            if shared:
                # on the shared side the algorithm OBJECT is shared too: one instance per configuration for the whole
                # history (state kept inside an algorithm instance must not leak from one run to the next)
                key = (op["config"], op["env"])
                if key not in self.instances:
                    self.instances[key] = configs.BY_NAME[op["config"]].factory()
                alg = self.instances[key]
            else:
                alg = configs.BY_NAME[op["config"]].factory()
            # configurations that do not declare any use of randomness get a DIFFERENT state of the `random` module for
            # their second call (and for the run on fresh copies): their result must not depend on it
            random.seed(op["rng"] + (0 if configs.BY_NAME[op["config"]].rng else reseed))
            try:
                with lib.quiet():
                    return "ok", alg.compute_consensus_rankings(d, s, op["flag"])
            except Exception as e:  # noqa
                if type(e).__module__.startswith("corankco"):
                    return "refused:" + type(e).__name__, None
                raise

    def apply(self, op):
        self.steps += 1
        kind = op["op"]
        if kind == "run" and op.get("k"):
            # a run under a MULTIPLE of the shared scheme (a scheme object of its own): nothing about it may stick
            # it is sandwiched between two runs under the shared scheme itself, which must agree
            sk = lib.mk_scheme(gen.scale(self.scheme, op["k"]))
            sta, ca = self._run(op, self.d, self.s, shared=True)
            va = (cons_view(ca), round(float(ca.kemeny_score), 9)) if sta == "ok" else None
            st1, c1 = self._run(op, self.d, sk, shared=True)
            if st1 == "ok" and not self.mutated:
                # shared and fresh objects live in one process, so state kept at module level would fool a comparison
                # between them: the score announced for the run under the multiple is compared with the definition
                inst = oracle.Instance(self.raw, gen.scale(self.scheme, op["k"]))
                for r in c1.consensus_rankings:
                    want = inst.score(lib.model_of_ranking(r))
                    if not lib.approx_equal(c1.kemeny_score, want, 1e-6):
                        raise Violation("%s run under %r times the shared scheme, right after a run under the scheme "
                                        "itself, announces the score %r for %s; by the definition it is %s" % (
                                            op["config"], op["k"], c1.kemeny_score, r, want))
            stb, cb = self._run(op, self.d, self.s, shared=True)
            vb = (cons_view(cb), round(float(cb.kemeny_score), 9)) if stb == "ok" else None
            self.check_unchanged("running %s under %r times the scheme" % (op["config"], op["k"]))
            if not configs.BY_NAME[op["config"]].rng and (sta, va) != (stb, vb):
                raise Violation("%s returned %s %s, then (after a run of the same configuration under %r times the "
                                "scheme) %s %s on the same inputs" % (op["config"], sta, va, op["k"], stb, vb))
            self.runs.append("scaled")
        elif kind == "run":
            st1, c1 = self._run(op, self.d, self.s, shared=True)
            self.check_unchanged("running %s" % op["config"])
            fd, fs = self.fresh()
            st2, c2 = self._run(op, fd, fs, reseed=7)
            if st1 != st2:
                raise Violation("%s on shared objects: %s, on fresh copies: %s" % (op["config"], st1, st2))
            if st1 == "ok" and not configs.BY_NAME[op["config"]].rng:
                key = (op["config"], op["env"], op["flag"])
                now = (cons_view(c1), round(float(c1.kemeny_score), 9))
                if key not in self.first:
                    self.first[key] = (now, self.steps)
                elif self.first[key][0] != now:
                    raise Violation("%s (at most one ranking: %s) returned %s at step %d of this history and %s at step "
                                    "%d, on the same unchanged inputs" % (op["config"], op["flag"], self.first[key][0],
                                                                          self.first[key][1], now, self.steps))
            if st1 == "ok" and self.mutated:
                v1 = cons_view(c1)
                if configs.BY_NAME[op["config"]].exact and abs(float(c1.kemeny_score) - float(c2.kemeny_score)) > 1e-9:
                    raise Violation("%s after an in-place mutation of the dataset: optimal score %r on the shared "
                                    "dataset, %r on a fresh dataset with the same rankings" % (
                                        op["config"], c1.kemeny_score, c2.kemeny_score))
                if not configs.BY_NAME[op["config"]].rng:
                    st3, c3 = self._run(op, self.d, self.s, shared=True, reseed=13)
                    if st3 != "ok" or cons_view(c3) != v1:
                        raise Violation("%s called twice on the same inputs: %s then %s" % (
                            op["config"], v1, cons_view(c3) if c3 is not None else st3))
                self.consensus.append((c1, c2))
            elif st1 == "ok":
                v1, v2 = cons_view(c1), cons_view(c2)
                if v1 != v2:
                    raise Violation("%s on shared objects after %d earlier step(s) returned %s, on fresh copies %s" % (
                        op["config"], self.steps - 1, v1, v2))
                if not configs.BY_NAME[op["config"]].rng:
                    st3, c3 = self._run(op, self.d, self.s, shared=True, reseed=13)
                    if st3 != "ok" or cons_view(c3) != v1:
                        raise Violation("%s called twice on the same inputs: %s then %s" % (
                            op["config"], v1, cons_view(c3) if c3 is not None else st3))
                self.consensus.append((c1, c2))
            self.runs.append(op["config"])
        elif kind == "read":
            if self.consensus:
                c1, c2 = self.consensus[op["idx"] % len(self.consensus)]
                seen_before = cons_view(c1)
                a = (c1.kemeny_score, c1.description().replace("shared", ""), str(c1))
                b = (c2.kemeny_score, c2.description().replace("shared", ""), str(c2))
                # the other read-only accessors of a consensus: top-k queries, iteration, features
                with lib.quiet():
                    k = 1 + op["idx"] % 5
                    top = c1.topk_ranking(k)
                    c1.evaluate_topk_ranking(list(top)[:1], k)
                    repr(c1), len(c1), list(c1), c1.elements, c1.nb_elements, dict(c1.features)
                if cons_view(c1) != seen_before:
                    raise Violation("reading a consensus (score, description, top-%d, iteration) changed it: %s -> %s" % (
                        k, seen_before, cons_view(c1)))
                if not self.mutated and abs(float(a[0]) - float(b[0])) > 1e-9:
                    raise Violation("kemeny_score read on the shared consensus %r, on the fresh one %r" % (a[0], b[0]))
            self.runs.append("read")
        elif kind == "partition":
            fd, fs = self.fresh()
            f = OrderedPartition.parcons_partition if op["which"] == "parcons" else OrderedPartition.parfront_partition
            with lib.quiet():
                p1 = [sorted(elem_key(e) for e in g) for g in f(self.d, self.s).partition]
                p2 = [sorted(elem_key(e) for e in g) for g in f(fd, fs).partition]
            if self.mutated and op["which"] == "parcons":
                p1, p2 = sorted(p1), sorted(p2)          # the components are id-independent, their order need not be
            if p1 != p2 and not (self.mutated and op["which"] == "parfront"):
                raise Violation("%s partition on shared objects %s, on fresh copies %s" % (op["which"], p1, p2))
            self.runs.append("read")
        elif kind == "kemeny":
            fd, fs = self.fresh()
            univ_now = oracle.universe(self.raw)
            as_int = bool(univ_now) and all(isinstance(e, int) for e in univ_now)
            cand = [[(int(x) if as_int and isinstance(x, str) and x.isdecimal() else x) for x in b_] for b_ in op["cand"]]
            # elements removed by an earlier user mutation are dropped from the candidate, new ones cannot appear
            cand = [b2 for b2 in ([x for x in b_ if x in set(univ_now)] for b_ in cand) if b2]
            missing = [e for e in univ_now if e not in {x for b_ in cand for x in b_}]
            if missing:
                cand.append(missing)
            c = lib.mk_ranking(cand)
            a = lib.KemenyComputingFactory(self.s).get_kemeny_score(c, self.d)
            b = lib.KemenyComputingFactory(fs).get_kemeny_score(lib.mk_ranking(cand), fd)
            if a != b:
                raise Violation("get_kemeny_score on shared objects %r, on fresh copies %r" % (a, b))
            self.runs.append("read")
        elif kind == "view":
            if self.mutated and op["which"] in ("positions", "bucket_ids", "str", "description"):
                self._view(op, self.d)           # id- or iteration-order dependent: exercised, not compared
                self.check_unchanged(str(op))
                return
            fd, fs = self.fresh()
            a, b = self._view(op, self.d), self._view(op, fd)
            if a != b:
                raise Violation("dataset view %s on the shared dataset %s, on a fresh copy %s" % (op["which"], a, b))
        elif kind == "mutate":
            # the USER mutates the shared dataset in place; from then on 'fresh copies' are built from the new rankings
            univ = oracle.universe(self.raw)
            if op["how"] == "remove_empty":
                new = [r for r in self.raw if r]
                if not new:
                    return
                self.d.remove_empty_rankings()
            else:
                if len(univ) < 2:
                    return
                e = sorted(univ, key=lambda v: (str(type(v)), v))[op["which"] % len(univ)]
                new = [r2 for r2 in (oracle.project(r, set(univ) - {e}) for r in self.raw) if r2]
                if not new:
                    return
                self.d.remove_elements({lib.Element(e)})
            # the names that remain may all be integer-like now: the dataset then holds ints (C16), and so must the
            # raw data used for fresh copies and candidates
            self.raw = lib.normalized(new)
            self.mutated = True
            self.first = {}
            self.d.name = "shared"
            self.snap0 = snapshot(self.d, self.s)
            fd, fs = self.fresh()
            snap_fresh = snapshot(fd, fs)
            sem = [k for k in snap_fresh if k not in ("elem_id", "id_elem", "rankings")]
            cnt = lambda sn: sorted(sn["rankings"])          # noqa: rankings compared as a multiset
            if any(snap_fresh[k] != self.snap0[k] for k in sem) or cnt(snap_fresh) != cnt(self.snap0):
                diff = [k for k in sem + ["rankings"] if snap_fresh[k] != self.snap0[k]]
                raise Violation("after the in-place mutation %s the dataset differs from a fresh dataset with the same "
                                "rankings in %s: %s vs %s" % (op, diff, {k: self.snap0[k] for k in diff},
                                                              {k: snap_fresh[k] for k in diff}))
            self.consensus = []
            self.runs.append("read")
            return
        elif kind == "scheme":
            fd, fs = self.fresh()
            a, b = self._scheme(op, self.s), self._scheme(op, fs)
            if a != b:
                raise Violation("scheme operation %s on the shared scheme %s, on a fresh one %s" % (op["which"], a, b))
        else:
            raise lib.HarnessError("unknown op %r" % (op,))
        self.check_unchanged(str({k: v for k, v in op.items() if k != "cand"}))

    def _view(self, op, d):
        w = op["which"]
        with lib.quiet():
            if w == "positions":
                return d.get_positions().tolist()
            if w == "bucket_ids":
                return d.get_bucket_ids().tolist()
            if w == "unified_rankings":
                rs = d.unified_rankings()
                # the returned rankings belong to the caller: mutating them must not reach the dataset
                for r in rs:
                    r.buckets.append({lib.Element("__scratch__")})
                return [[sorted(elem_key(e) for e in b) for b in r.buckets] for r in rs]
            if w == "unified_dataset":
                return [[sorted(elem_key(e) for e in b) for b in r.buckets] for r in d.unified_dataset().rankings]
            if w == "sub_problem":
                univ = sorted(d.universe, key=elem_key)
                keep = {e for i, e in enumerate(univ) if (op["mask"] >> i) & 1} or {univ[0]}
                sub = d.sub_problem_from_elements(keep)
                return [[sorted(elem_key(e) for e in b) for b in r.buckets] for r in sub.rankings]
            if w == "description":
                return d.description()
            if w == "str":
                return str(d), repr(d)
            if w == "iterate":
                return [[sorted(elem_key(e) for e in b) for b in r] for r in d], d.contains_element(1), len(d[0])
        raise lib.HarnessError("unknown view %r" % w)

    def _scheme(self, op, s):
        w = op["which"]
        if w == "mul":
            t = s * op["k"]
            t2 = op["k"] * s
            return t.penalty_vectors, t2.penalty_vectors
        if w == "description":
            return s.description()
        if w == "nickname":
            return s.get_nickname()
        if w == "equivalent":
            o = lib.mk_scheme(op["other"])
            return (s.is_equivalent_to(o), o.is_equivalent_to(s), s.is_equivalent_to_on_complete_rankings_only(o))
        if w == "str":
            return str(s), repr(s)
        if w == "getitem":
            return list(s[0]), list(s[1])
        raise lib.HarnessError("unknown scheme op %r" % w)


def replay(history, ctx):
    it = Interp(history["init"])
    for op in history["ops"]:
        it.apply(op)
    record(history, it, ctx)


def record(history, it, ctx):
    runs = it.runs
    alg_runs = [r for r in runs if r != "read"]
    read_between = False
    seen_run = False
    for i, r in enumerate(runs):
        if r != "read":
            if seen_run and read_between_flag(runs, i):
                read_between = True
            seen_run = True
    raw = history["init"]["rankings"]
    nt = (len(history["ops"]) >= 4 and len(set(alg_runs)) >= 2 and read_between and not gen.is_complete(raw)
          and gen.has_ties(raw))
    ctx.stats.case(history, nt, ["steps:%d" % min(len(history["ops"]), 12), "alg_runs:%d" % min(len(alg_runs), 5)] +
                   ["ran:" + r for r in set(alg_runs)])


def read_between_flag(runs, i):
    # a read strictly between an earlier algorithm run and run i
    j = i - 1
    saw_read = False
    while j >= 0:
        if runs[j] == "read":
            saw_read = True
        elif saw_read:
            return True
        else:
            saw_read = False
            return False
        j -= 1
    return False


def machine_factory(ctx, tier):
    big = tier == "thorough"
    max_n = 7 if big else 6

    class Machine(RuleBasedStateMachine):
        def __init__(self):
            super().__init__()
            self.history = None
            self.it = None

        def _do(self, op):
            self.history["ops"].append(op)
            harness._HB["file"] and harness._heartbeat(SUB, self.history)
            try:
                self.it.apply(op)
            except BaseException as e:  # noqa
                kind, msg = harness._classify(e, sys.exc_info()[2])
                ctx.last_failure = {"sub": SUB.name, "case": {"init": self.history["init"],
                                                              "ops": list(self.history["ops"])},
                                    "kind": kind, "message": msg}
                raise

        @initialize(ds=gen.datasets(max_n=max_n, max_m=4), scheme=st.one_of(gen.any_schemes(), gen.any_schemes(), gen.preset_multiples()))
        def init(self, ds, scheme):
            self.history = {"init": {"rankings": ds["rankings"], "scheme": scheme}, "ops": []}
            self.it = Interp(self.history["init"])

        # Hypothesis' swarm testing disables a random subset of rules in each history: the algorithm runs are split
        # over four rules so that most histories contain some
        @rule(pair=st.sampled_from([p for p in RUN_PAIRS if configs.BY_NAME[p[0]].family == "exact"]),
              flag=st.booleans(), rng=st.integers(0, 9999))
        def run_exact(self, pair, flag, rng):
            self.run(pair, flag, rng)

        @rule(pair=st.sampled_from([p for p in RUN_PAIRS if configs.BY_NAME[p[0]].family == "parcons"]),
              flag=st.booleans(), rng=st.integers(0, 9999))
        def run_parcons(self, pair, flag, rng):
            self.run(pair, flag, rng)

        @rule(pair=st.sampled_from([p for p in RUN_PAIRS if configs.BY_NAME[p[0]].family == "bioconsert"]),
              flag=st.booleans(), rng=st.integers(0, 9999))
        def run_bioconsert(self, pair, flag, rng):
            self.run(pair, flag, rng)

        @rule(pair=st.sampled_from([p for p in RUN_PAIRS if configs.BY_NAME[p[0]].family in
                                    ("borda", "copeland", "kwiksort", "pickaperm")]),
              flag=st.booleans(), rng=st.integers(0, 9999))
        def run_simple(self, pair, flag, rng):
            self.run(pair, flag, rng)

        def run(self, pair, flag, rng):
            name, env = pair
            n = len(oracle.universe(self.history["init"]["rankings"]))
            cfg = configs.BY_NAME[name]
            if env == "standin" and n > 5:
                env = "absent" if "absent" in cfg.envs else env
                if env == "standin":
                    return
            op = {"op": "run", "config": name, "env": env, "flag": flag, "rng": rng}
            if rng % 5 == 0:
                op["k"] = [0.5, 2.0, 3.0][rng % 3]
            self._do(op)

        @rule(idx=st.integers(0, 7))
        def read(self, idx):
            self._do({"op": "read", "idx": idx})

        @rule(which=st.sampled_from(["parcons", "parfront"]))
        def partition(self, which):
            self._do({"op": "partition", "which": which})

        @rule(data=st.data())
        def kemeny(self, data):
            univ = oracle.universe(self.history["init"]["rankings"])
            cand = data.draw(gen.candidates(univ))
            self._do({"op": "kemeny", "cand": cand})

        @rule(which=st.sampled_from(VIEWS), mask=st.integers(1, 255))
        def view(self, which, mask):
            self._do({"op": "view", "which": which, "mask": mask})

        @rule(how=st.sampled_from(["remove_empty", "remove_empty", "remove_element"]), which=st.integers(0, 7))
        def mutate(self, how, which):
            self._do({"op": "mutate", "how": how, "which": which})

        @rule(which=st.sampled_from(SCHEME_OPS), k=st.sampled_from([0.5, 2, 3.0, 1]), other=gen.dyadic_schemes())
        def scheme(self, which, k, other):
            self._do({"op": "scheme", "which": which, "k": k, "other": other})

        def teardown(self):
            if self.it is not None and self.history is not None:
                record(self.history, self.it, ctx)

    return Machine


SUB = MachineSub("histories", machine_factory, replay, quick=6000, thorough=60000, steps_quick=14, steps_thorough=25)


def subchecks():
    return [SUB]
