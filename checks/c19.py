"""C19 — scoring schemes: validation, scaling and equivalence behave as documented."""
from fractions import Fraction
from itertools import product
from hypothesis import strategies as st
from vlib import gen, lib, oracle
from vlib.harness import HypSub, EnumSub
from vlib.lib import Violation
from checks.c10 import proportional
from corankco.scoringscheme import (ScoringScheme, InvalidScoringScheme, NonRealPositiveValuesScoringScheme,
                                    ForbiddenAssociationPenaltiesScoringScheme)

META = {
    "level": "exploration",
    "engine": "exhaustive enumeration of finite grids (sharded) + hypothesis",
    "rule": "validation: ALL 3^12 = 531441 twelve-tuples over {0,1,2} - accepted iff the six documented rules hold, "
            "rejected with ForbiddenAssociationPenaltiesScoringScheme otherwise, accepted schemes store floats equal "
            "to the inputs; Hypothesis adds negative / fractional / int-float mixes (NonRealPositiveValues...) and "
            "malformed shapes and types (InvalidScoringScheme / NonRealPositiveValues...). When several rules are "
            "broken any matching class is accepted. Scaling: valid dyadic scheme x dyadic positive k (int and float, "
            "s*k and k*s): new valid scheme with every penalty == k*p exactly, original untouched, and "
            "get_kemeny_score under k*s == k * score under s on a generated (dataset, candidate). Equivalence: pairs "
            "of the 2916 valid grid schemes (quick: every pair (a, b) with b in a 1/16 slice chosen by the seed... "
            "thorough: all 8.5M ordered pairs) + Hypothesis pairs (a, k*a), (a, a with one entry changed), random: "
            "is_equivalent_to == exists k>0 with b == k*a on all 12 entries, ..._on_complete_rankings_only == same on "
            "entries 0..2 of both vectors (exact rationals); get_nickname == UKSP/GPDP/IGKS/EKS iff equivalent to the "
            "corresponding p=1 preset (in that order) else str(scheme). presets: the named constructors (with and without "
            "p, p over a 12-value grid) hold the documented penalty patterns and the matching nickname. Non-trivial: validation tuple violating "
            "exactly one rule; equivalence pair that is proportional on exactly one of the two vectors.",
    "exhaustive": {"quick": ["all 3^12 twelve-tuples over {0,1,2} (validation)",
                             "all 2916 valid grid schemes x 183 partner schemes (1/16 of all ordered pairs)"],
                   "thorough": ["all 3^12 twelve-tuples over {0,1,2} (validation)",
                                "all 2916^2 = 8503056 ordered pairs of valid grid schemes (equivalence)"]},
    "assumptions": ["NaN / inf / bool penalties and multiplication by non-positive or non-numeric values are outside "
                    "the statement and are not asserted"],
    "budget_s": {"quick": 120, "thorough": 900},
}


def rules_ok(b, t):
    return (b[0] == 0 and b[1] > 0 and b[3] <= b[4] and t[0] == t[1] and t[2] == 0 and t[3] == t[4])


def rules_broken(b, t):
    return [b[0] != 0, not b[1] > 0, not b[3] <= b[4], t[0] != t[1], t[2] != 0, t[3] != t[4]]


VALID_GRID = None


def valid_grid():
    global VALID_GRID
    if VALID_GRID is None:
        VALID_GRID = [list(v) for v in product((0, 1, 2), repeat=12) if rules_ok(v[:6], v[6:])]
    return VALID_GRID


# ---- validation, exhaustive ---------------------------------------------------------------------
def validation_chunks(tier):
    # 729 chunks of 729 tuples: chunk = first six values
    for k, first in enumerate(product((0, 1, 2), repeat=6)):
        yield {"first": list(first)}


def check_validation_chunk(case, ctx):
    b = case["first"]
    for t in product((0, 1, 2), repeat=6):
        t = list(t)
        ok = rules_ok(b, t)
        nb = sum(rules_broken(b, t))
        ctx.stats.case({"b": b, "t": t}, nb == 1, ["valid" if ok else "invalid"])
        try:
            s = ScoringScheme([list(b), list(t)])
            raised = None
        except Exception as e:  # noqa
            raised = e
        if ok:
            if raised is not None:
                raise Violation("valid scheme %s rejected with %s" % ([b, t], type(raised).__name__))
            if s.penalty_vectors != [[float(x) for x in b], [float(x) for x in t]] or \
                    not all(isinstance(x, float) for v in s.penalty_vectors for x in v):
                raise Violation("accepted scheme %s stores %s" % ([b, t], s.penalty_vectors))
            if list(s.b_vector) != [float(x) for x in b] or list(s.t_vector) != [float(x) for x in t]:
                raise Violation("b_vector / t_vector of %s are %s / %s" % ([b, t], s.b_vector, s.t_vector))
        else:
            if raised is None:
                raise Violation("invalid scheme %s (rules broken: %s) accepted" % ([b, t], rules_broken(b, t)))
            if type(raised) is not ForbiddenAssociationPenaltiesScoringScheme:
                raise Violation("invalid scheme %s rejected with %s instead of "
                                "ForbiddenAssociationPenaltiesScoringScheme" % ([b, t], type(raised).__name__))


# ---- validation, hypothesis ---------------------------------------------------------------------
BAD_VALUES = [None, "1", 1j, [1], (1,), {"a": 1}]


@st.composite
def malformed_cases(draw, tier):
    mode = draw(st.sampled_from(["values", "values", "shape", "type"]))
    vals = st.sampled_from([0, 1, 2, 0.5, 1.5, 0.0, 1.0, -1, -0.5])
    if mode == "values":
        pen = [[draw(vals) for _ in range(6)], [draw(vals) for _ in range(6)]]
        if draw(st.booleans()):       # make most rules hold so that the interesting failure is the value itself
            pen[0][0] = 0
            pen[0][1] = abs(pen[0][1]) or 1
            pen[0][3], pen[0][4] = sorted([pen[0][3], pen[0][4]])
            pen[1][1] = pen[1][0]
            pen[1][2] = 0
            pen[1][4] = pen[1][3]
        return {"mode": mode, "pen": pen}
    base = [[0, 1, 1, 0, 1, 1], [1, 1, 0, 1, 1, 0]]
    if mode == "shape":
        k = draw(st.integers(0, 6))
        if k == 0:
            pen = [base[0]]
        elif k == 1:
            pen = [base[0], base[1], base[1]]
        elif k == 2:
            pen = [base[0][:5], base[1]]
        elif k == 3:
            pen = [base[0], base[1] + [0]]
        elif k == 4:
            pen = []
        elif k == 5:
            pen = [base[0], []]
        else:
            pen = [[], []]
        return {"mode": mode, "pen": pen}
    k = draw(st.integers(0, 4))
    if k == 0:
        return {"mode": "type_outer_tuple", "pen": "TUPLE"}
    if k == 1:
        return {"mode": "type_inner_tuple", "pen": "INNER_TUPLE"}
    if k == 2:
        return {"mode": "type_none", "pen": None}
    if k == 3:
        return {"mode": "type_str", "pen": "010111110110"}
    i, j = draw(st.integers(0, 1)), draw(st.integers(0, 5))
    bad = draw(st.integers(0, len(BAD_VALUES) - 1))
    return {"mode": "type_value", "pen": base, "pos": [i, j], "bad": bad}


def check_malformed(case, ctx):
    mode, pen = case["mode"], case["pen"]
    if pen == "TUPLE":
        arg, expect = ((0, 1, 1, 0, 1, 1), (1, 1, 0, 1, 1, 0)), {InvalidScoringScheme}
    elif pen == "INNER_TUPLE":
        arg, expect = [(0, 1, 1, 0, 1, 1), [1, 1, 0, 1, 1, 0]], {InvalidScoringScheme}
    elif mode == "type_value":
        arg = [list(pen[0]), list(pen[1])]
        v = BAD_VALUES[case["bad"]]
        arg[case["pos"][0]][case["pos"][1]] = v
        expect = {NonRealPositiveValuesScoringScheme}
    elif mode in ("type_none", "type_str", "shape"):
        arg, expect = pen, {InvalidScoringScheme}
    else:
        arg = [list(pen[0]), list(pen[1])]
        b, t = arg
        expect = set()
        if any(x < 0 for x in b + t):
            expect.add(NonRealPositiveValuesScoringScheme)
        if not rules_ok(b, t):
            expect.add(ForbiddenAssociationPenaltiesScoringScheme)
    ctx.stats.case(case, len(expect) == 1, ["mode:" + mode, "expect:" + ",".join(sorted(e.__name__ for e in expect))])
    try:
        s = ScoringScheme(arg)
        raised = None
    except Exception as e:  # noqa
        raised = e
    if not expect:
        if raised is not None:
            raise Violation("valid scheme %r rejected with %s" % (arg, type(raised).__name__))
        want = [[float(x) for x in arg[0]], [float(x) for x in arg[1]]]
        if s.penalty_vectors != want:
            raise Violation("accepted scheme %r stores %s" % (arg, s.penalty_vectors))
        return
    if raised is None:
        raise Violation("invalid scheme %r accepted (expected %s)" % (arg, sorted(e.__name__ for e in expect)))
    if type(raised) not in expect:
        raise Violation("invalid scheme %r rejected with %s, documented: %s" % (
            arg, type(raised).__name__, sorted(e.__name__ for e in expect)))


# ---- scaling ------------------------------------------------------------------------------------
@st.composite
def scaling_cases(draw, tier):
    scheme = draw(gen.dyadic_schemes())
    k = draw(st.sampled_from([0.25, 0.5, 1, 2, 3, 4, 1.0, 2.0, 3.0, 8, 0.125]))
    ds = draw(gen.datasets(max_n=6, max_m=4))
    cand = draw(gen.candidates(oracle.universe(ds["rankings"])))
    return {"scheme": scheme, "k": k, "dataset": ds, "cand": cand, "right": draw(st.booleans()),
            # the third way to write the multiplication: the augmented assignment `t = s; t *= k`
            "augmented": draw(st.sampled_from([False, False, True]))}


def check_scaling(case, ctx):
    scheme, k = case["scheme"], case["k"]
    s = lib.mk_scheme(scheme)
    before = [list(s.penalty_vectors[0]), list(s.penalty_vectors[1])]
    ids = (id(s.penalty_vectors), id(s.penalty_vectors[0]), id(s.penalty_vectors[1]))
    factory_before = lib.KemenyComputingFactory(s)       # built BEFORE the multiplication: must keep scoring under s

    def augmented():
        t_ = s
        t_ *= k
        return t_
    t = lib.must(augmented if case.get("augmented") else (lambda: (k * s) if case["right"] else (s * k)))
    ctx.stats.case(case, k != 1 and not gen.is_complete(case["dataset"]["rankings"]),
                   ["k:%s" % type(k).__name__, "imul" if case.get("augmented") else "rmul" if case["right"] else "mul"])
    if not isinstance(t, ScoringScheme) or t is s:
        raise Violation("scheme * %r returned %r" % (k, t))
    want = [[x * float(k) for x in before[0]], [x * float(k) for x in before[1]]]
    if t.penalty_vectors != want:
        raise Violation("(%s) * %r = %s, expected %s" % (before, k, t.penalty_vectors, want))
    if [list(s.penalty_vectors[0]), list(s.penalty_vectors[1])] != before or \
            ids != (id(s.penalty_vectors), id(s.penalty_vectors[0]), id(s.penalty_vectors[1])):
        raise Violation("multiplying by %r modified the original scheme: %s -> %s" % (k, before, s.penalty_vectors))
    if t.penalty_vectors[0] is s.penalty_vectors[0] or t.penalty_vectors is s.penalty_vectors:
        raise Violation("the scaled scheme shares its penalty lists with the original")
    lib.must(ScoringScheme, [list(t.penalty_vectors[0]), list(t.penalty_vectors[1])])   # still valid
    d = lib.mk_dataset(case["dataset"]["rankings"])
    c = lib.mk_ranking(case["cand"])
    a = lib.must(lib.KemenyComputingFactory(s).get_kemeny_score, c, d)
    b = lib.must(lib.KemenyComputingFactory(t).get_kemeny_score, c, d)
    if float(b) != float(a) * float(k):
        raise Violation("score under %r * s is %r, %r * score under s is %r" % (k, b, k, float(a) * float(k)))
    # the same two scores read through Consensus objects built directly
    ca = lib.must(lambda: lib.Consensus([c], d, s).kemeny_score)
    cb = lib.must(lambda: lib.Consensus([c], d, t).kemeny_score)
    if float(ca) != float(a) or float(cb) != float(b):
        raise Violation("Consensus([c], d, s).kemeny_score = %r (factory: %r); under %r * s: %r (factory: %r)" % (
            ca, a, k, cb, b))
    a0 = lib.must(factory_before.get_kemeny_score, c, d)
    if float(a0) != float(a):
        raise Violation("a score factory built on s before the multiplication by %r now gives %r, not %r" % (k, a0, a))


# ---- equivalence --------------------------------------------------------------------------------
NICK = [("UKSP", gen.PRESETS["unifying"]), ("GPDP", gen.PRESETS["pseudodistance"]), ("IGKS", gen.PRESETS["induced"]),
        ("EKS", gen.PRESETS["extended"])]


def check_pair(a, b, ctx, case):
    sa, sb = lib.mk_scheme(a), lib.mk_scheme(b)
    w6, w3 = proportional(a, b, 6), proportional(a, b, 3)
    one_vector = (_prop_vec(a[0], b[0]) != _prop_vec(a[1], b[1]))
    ctx.stats.case(case, one_vector, ["equiv6:%s" % w6, "equiv3:%s" % w3])
    g6 = lib.must(sa.is_equivalent_to, sb)
    g3 = lib.must(sa.is_equivalent_to_on_complete_rankings_only, sb)
    if bool(g6) != w6:
        raise Violation("%s.is_equivalent_to(%s) = %r, expected %r" % (a, b, g6, w6))
    if bool(g3) != w3:
        raise Violation("%s.is_equivalent_to_on_complete_rankings_only(%s) = %r, expected %r" % (a, b, g3, w3))


def _prop_vec(x, y):
    return proportional([x, [0] * 6], [y, [0] * 6], 6)


def check_nickname(a):
    sa = lib.mk_scheme(a)
    want = None
    for nick, preset in NICK:
        if proportional(a, preset, 6):
            want = nick
            break
    got = lib.must(sa.get_nickname)
    if want is None:
        want = str(sa)
    if got != want:
        raise Violation("get_nickname() of %s is %r, expected %r" % (a, got, want))


def grid_pair_chunks(tier):
    g = valid_grid()
    for i in range(len(g)):
        yield {"i": i}


def check_grid_pairs(case, ctx):
    g = valid_grid()
    i = case["i"]
    a = [g[i][:6], g[i][6:]]
    check_nickname(a)
    if ctx.tier == "thorough":
        partners = range(len(g))
    else:
        off = ctx.seed % 16
        partners = range(off, len(g), 16)
    for j in partners:
        b = [g[j][:6], g[j][6:]]
        check_pair(a, b, ctx, {"a": a, "b": b})


@st.composite
def equivalence_cases(draw, tier):
    a = draw(gen.dyadic_schemes())
    mode = draw(st.sampled_from(["multiple", "one_changed", "random", "preset"]))
    if mode == "multiple":
        b = gen.scale(a, draw(st.sampled_from([0.5, 2.0, 3.0, 0.25, 4.0])))
    elif mode == "one_changed":
        b = [list(a[0]), list(a[1])]
        k = draw(st.sampled_from([0.5, 1.0, 2.0]))
        b = gen.scale(b, k)
        where = draw(st.sampled_from(["b2", "b5", "t0", "t3", "t5", "b34"]))
        nv = draw(st.sampled_from(gen.DYADIC))
        if where == "b2":
            b[0][2] = nv
        elif where == "b5":
            b[0][5] = nv
        elif where == "t0":
            b[1][0] = b[1][1] = nv
        elif where == "t3":
            b[1][3] = b[1][4] = nv
        elif where == "t5":
            b[1][5] = nv
        else:
            b[0][4] = max(nv, b[0][3])
    elif mode == "preset":
        b = draw(gen.preset_multiples())
        a = draw(st.one_of(gen.preset_multiples(), gen.near_presets()))
    else:
        b = draw(gen.dyadic_schemes())
    return {"a": a, "b": b, "mode": mode}


def check_equivalence(case, ctx):
    check_pair(case["a"], case["b"], ctx, case)
    check_pair(case["b"], case["a"], ctx, case)
    check_nickname(case["a"])
    check_nickname(case["b"])


P_GRID = [0.0, 0.125, 0.25, 0.5, 0.75, 1.0, 1.5, 2.0, 3.0, 0.1, 0.3, 0.7]


def preset_cases(tier):
    for p in P_GRID:
        yield {"p": p}


def check_presets(case, ctx):
    """the named constructors: the schemes the other properties call 'the unifying scheme', 'the induced measure' ...
    are the ones these constructors build, so they are pinned to the documented penalty patterns (the same patterns the
    nickname and every other check of this framework use)"""
    from corankco.scoringscheme import ScoringScheme
    p = case["p"]
    want = {
        "get_unifying_scoring_scheme_p": [[0., 1., p, 0., 1., p], [p, p, 0., p, p, 0.]],
        "get_pseudodistance_scoring_scheme_p": [[0., 1., p, 0., 1., 0.], [p, p, 0., p, p, 0.]],
        "get_induced_measure_scoring_scheme_p": [[0., 1., p, 0., 0., 0.], [p, p, 0., 0., 0., 0.]],
    }
    ctx.stats.case(case, p not in (0.0, 1.0), ["p:%s" % p])
    for name, w in want.items():
        sch = lib.must(getattr(ScoringScheme, name), p)
        if sch.penalty_vectors != w:
            raise Violation("ScoringScheme.%s(%r) holds %s, documented pattern %s" % (name, p, sch.penalty_vectors, w))
        check_nickname(w)
    if p == 1.0:
        fixed = {"get_unifying_scoring_scheme": gen.PRESETS["unifying"],
                 "get_pseudodistance_scoring_scheme": gen.PRESETS["pseudodistance"],
                 "get_induced_measure_scoring_scheme": gen.PRESETS["induced"],
                 "get_extended_measure_scoring_scheme": gen.PRESETS["extended"]}
        for (name, w), (nick, _) in zip(fixed.items(), NICK):
            sch = lib.must(getattr(ScoringScheme, name))
            if sch.penalty_vectors != w:
                raise Violation("ScoringScheme.%s() holds %s, expected %s" % (name, sch.penalty_vectors, w))
            if lib.must(sch.get_nickname) != nick:
                raise Violation("ScoringScheme.%s().get_nickname() = %r, expected %r" % (name, sch.get_nickname(), nick))


def subchecks():
    return [EnumSub("validation_grid", validation_chunks, check_validation_chunk),
            HypSub("validation_malformed", malformed_cases, check_malformed, 6000, 60000),
            HypSub("scaling", scaling_cases, check_scaling, 6000, 60000),
            EnumSub("equivalence_grid", grid_pair_chunks, check_grid_pairs),
            HypSub("equivalence_random", equivalence_cases, check_equivalence, 8000, 100000),
            EnumSub("presets", preset_cases, check_presets)]
