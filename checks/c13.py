"""C13 — Copeland ranks by pairwise victories and reports consistent features."""
from fractions import Fraction
from hypothesis import strategies as st
from vlib import gen, lib, oracle, mutate
from vlib.harness import HypSub
from vlib.lib import Violation
from checks.common_alg import well_formed
from corankco.algorithms.copeland.copeland import CopelandMethod

META = {
    "level": "exploration",
    "engine": "hypothesis",
    "rule": "cases = (dyadic scheme, dataset). Oracle from exact pair costs: x beats y iff before(x,y) < after(x,y), "
            "equality iff equal; score = victories + equalities/2. Consensus == groups of equal score in decreasing "
            "order; copeland_scores[x] == score; copeland_victories[x] == [victories, equalities, defeats]; per "
            "element counts sum to n-1; scores sum to n(n-1)/2; both dictionaries are keyed by exactly the universe. "
            "Non-trivial: >=1 pair of equal cost, >=1 pair never co-ranked, >=3 distinct scores.",
    "assumptions": ["dyadic penalties only (exact cost comparisons)"],
    "budget_s": {"quick": 100, "thorough": 700},
    "floors": {"copeland/incomplete": 0.3},
}



@st.composite
def preludes(draw):
    """what the long-lived algorithm instance of a case did BEFORE the case's own dataset: nothing, or a run on another
    small dataset (tie-free and complete half of the time), under some scheme"""
    if draw(st.integers(0, 2)) == 0:
        return None
    shape = draw(st.sampled_from(["complete", "complete", "incomplete", "near_unanimous", "identical"]))
    ds = draw(gen.datasets(max_n=5, max_m=3, shapes=[shape], kinds=("dense", "str"), allow_empty_rankings=False))
    if draw(st.booleans()):
        ds["rankings"] = [[[e] for b in r for e in b] for r in ds["rankings"]]          # break every tie
    return {"rankings": ds["rankings"], "scheme": draw(gen.preset_multiples(["unifying", "induced", "unifying_half"]))}


def run_prelude(algs, prelude):
    if not prelude:
        return
    d0, s0 = lib.mk_dataset(prelude["rankings"]), lib.mk_scheme(prelude["scheme"])
    for a in algs:
        try:
            with lib.quiet():
                a.compute_consensus_rankings(d0, s0, True)
        except Exception:  # noqa  (a refusal of the prelude is not the subject)
            pass


@st.composite
def cases(draw, tier):
    big = tier == "thorough"
    # generation dominates the cost: every dataset is examined under three drawn schemes and the four presets
    ds = draw(gen.datasets(max_n=15 if big else 8, max_m=7 if big else 6, many="thousand"))
    return {"schemes": [draw(gen.dyadic_schemes()) for _ in range(3)], "dataset": ds,
            "flag": draw(st.booleans()), "prelude": draw(preludes()),
            "via_mutation": draw(mutate.via_strategy(ds["rankings"], p=4))}


PRESET_SCHEMES = [gen.PRESETS[k] for k in ("unifying", "pseudodistance", "induced", "extended")]


def check(case, ctx):
    if "scheme" in case:
        return check_one(case, ctx)
    # ONE CopelandMethod instance and ONE Dataset object serve the whole batch (state kept between runs must not leak)
    alg = CopelandMethod()
    run_prelude([alg], case.get("prelude"))
    first = lib.mk_scheme((case["schemes"] + PRESET_SCHEMES)[0])
    shared = {"alg": alg, "d": mutate.build(case["dataset"]["rankings"], case.get("via_mutation"),
                                            lambda d0: alg.compute_consensus_rankings(d0, first, case["flag"]))}
    for scheme in case["schemes"] + PRESET_SCHEMES:
        check_one({"scheme": scheme, "dataset": case["dataset"], "flag": case["flag"]}, ctx, shared)


def check_one(case, ctx, shared=None):
    rankings, scheme = case["dataset"]["rankings"], case["scheme"]
    d, s = (shared["d"] if shared else lib.mk_dataset(rankings)), lib.mk_scheme(scheme)
    inst = oracle.Instance(rankings, scheme)
    univ, n = inst.elements, inst.n
    val = lib.must((shared["alg"] if shared else CopelandMethod()).compute_consensus_rankings, d, s, case["flag"])
    model = well_formed(val, rankings, case["flag"], "Copeland")[0]
    res = {}
    equal_pair = never_coranked = False
    for i, x in enumerate(univ):
        v = e = de = 0
        for j, y in enumerate(univ):
            if i == j:
                continue
            b, a = inst.before[i][j], inst.before[j][i]
            if b < a:
                v += 1
            elif b == a:
                e += 1
                equal_pair = True
            else:
                de += 1
            c = inst.counts[i][j]
            if c[0] + c[1] + c[2] == 0:
                never_coranked = True
        res[x] = (v, e, de)
    score = {x: Fraction(2 * v + e, 2) for x, (v, e, de) in res.items()}
    groups = {}
    for x, sc in score.items():
        groups.setdefault(sc, []).append(x)
    want = [groups[k] for k in sorted(groups, reverse=True)]
    ctx.stats.case(case, equal_pair and never_coranked and len(want) >= 3, gen.dataset_labels(case["dataset"]))
    if oracle.canon(model) != oracle.canon(want):
        raise Violation("Copeland returned %s; scores %s give %s" % (model, {k: str(v) for k, v in score.items()}, want))
    cs = lib.must(lambda: val.copeland_scores)
    cv = lib.must(lambda: val.copeland_victories)
    for name, dct in (("copeland_scores", cs), ("copeland_victories", cv)):
        if not isinstance(dct, dict):
            raise Violation("%s is a %s" % (name, type(dct).__name__))
        keys = [lib.raw(k) for k in dct]
        if sorted(keys, key=str) != sorted(univ, key=str):
            raise Violation("%s is keyed by %s, universe is %s" % (name, keys, univ))
    tot = Fraction(0)
    for k, vsc in cs.items():
        x = lib.raw(k)
        if Fraction(float(vsc)) != score[x]:
            raise Violation("copeland_scores[%r] = %r, expected %s (victories/equalities/defeats %s)" % (
                x, vsc, score[x], res[x]))
        tot += Fraction(float(vsc))
    if tot != Fraction(n * (n - 1), 2):
        raise Violation("Copeland scores sum to %s, expected n(n-1)/2 = %s" % (tot, Fraction(n * (n - 1), 2)))
    for k, trip in cv.items():
        x = lib.raw(k)
        t = [float(z) for z in trip]
        if len(t) != 3 or t != [float(z) for z in res[x]]:
            raise Violation("copeland_victories[%r] = %s, expected [victories, equalities, defeats] = %s" % (
                x, list(trip), list(res[x])))
        if sum(t) != n - 1:
            raise Violation("copeland_victories[%r] = %s does not sum to n-1 = %d" % (x, list(trip), n - 1))


def subchecks():
    return [HypSub("copeland", cases, check, 12000, 150000)]
