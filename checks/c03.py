"""C03 — every algorithm returns a well-formed consensus over exactly the universe."""
from vlib import gen, lib, configs
from vlib.harness import HypSub
from checks.common_alg import alg_cases, run_case, well_formed, id_order_differs

META = {
    "level": "exploration",
    "engine": "hypothesis",
    "rule": "cases = (algorithm configuration, solver environment, scheme, dataset, return_at_most_one_ranking, RNG "
            "seed for KwikSort pivots) over every configuration of vlib/configs.py (31 configurations incl. the eight "
            "get_algorithm defaults, nested starters/auxiliaries, both solver back-ends; CPLEX paths through the "
            "stand-in solver). Oracle: validity predicate (>=1 ranking, exactly 1 when asked, non-empty pairwise "
            "disjoint buckets, union == universe, Element identity and type). Documented refusals count as 'not "
            "accepted'; any other exception is a violation. Non-trivial: n>=3, dataset incomplete or with ties, and "
            "the consensus order differs from first-appearance (id) order.",
    "assumptions": ["real CPLEX is not installed: the CPLEX code paths run against vlib/cplex_standin.py (generic exact "
                    "0-1 ILP solver behind the API subset corankco calls)",
                    "KwikSort pivots are a function of random.seed(k) with k drawn by Hypothesis (full schedule "
                    "control is C11's)"],
    "budget_s": {"quick": 110, "thorough": 800},
    "floors": {"wellformed/incomplete": 0.3, "wellformed/env:standin": 0.1},
}


def check(case, ctx):
    rankings = case["dataset"]["rankings"]
    status, val, alg, d, s = run_case(case)
    labels = gen.dataset_labels(case["dataset"]) + ["cfg:" + case["config"], "env:" + case["env"],
                                                     "status:" + status, "flag:%s" % case["at_most_one"]]
    if status != "ok":
        ctx.stats.case(case, False, labels)
        return
    models = well_formed(val, rankings, case["at_most_one"], case["config"])
    from vlib import oracle
    n = len(oracle.universe(rankings))
    nt = n >= 3 and (not gen.is_complete(rankings) or gen.has_ties(rankings)) and id_order_differs(models[0], rankings)
    ctx.stats.case(case, nt, labels)


def subchecks():
    return [HypSub("wellformed", alg_cases, check, quick=20000, thorough=250000)]
