"""C03 — every algorithm returns a well-formed consensus over exactly the universe."""
from hypothesis import strategies as st
from vlib import gen, lib, configs
from vlib.harness import HypSub
from checks.common_alg import alg_cases, run_case, well_formed, id_order_differs

META = {
    "level": "exploration",
    "engine": "hypothesis",
    "rule": "cases = (algorithm configuration, solver environment, scheme, dataset, return_at_most_one_ranking, RNG "
            "seed for KwikSort pivots) over every configuration of vlib/configs.py (35 configurations incl. the eight "
            "get_algorithm defaults, nested starters/auxiliaries, both solver back-ends; CPLEX paths through the "
            "stand-in solver). Oracle: validity predicate (>=1 ranking, exactly 1 when asked, non-empty pairwise "
            "disjoint buckets, union == universe, Element identity and type). Documented refusals count as 'not "
            "accepted'; any other exception is a violation. Non-trivial: n>=3, dataset incomplete or with ties, and "
            "the consensus order differs from first-appearance (id) order.",
    "assumptions": ["real CPLEX is not installed: the CPLEX code paths run against vlib/cplex_standin.py (generic exact "
                    "0-1 ILP solver behind the API subset corankco calls)",
                    "KwikSort pivots are a function of random.seed(k) with k drawn by Hypothesis (full schedule "
                    "control is C11's)"],
    "budget_s": {"quick": 110, "thorough": 800},
    "floors": {"wellformed/incomplete": 0.3, "wellformed/env:standin": 0.1},
}


def check(case, ctx):
    rankings = case["dataset"]["rankings"]
    status, val, alg, d, s = run_case(case)
    labels = gen.dataset_labels(case["dataset"]) + ["cfg:" + case["config"], "env:" + case["env"],
                                                     "status:" + status, "flag:%s" % case["at_most_one"]]
    if status != "ok":
        ctx.stats.case(case, False, labels)
        return
    models = well_formed(val, rankings, case["at_most_one"], case["config"])
    from vlib import oracle
    n = len(oracle.universe(rankings))
    nt = n >= 3 and (not gen.is_complete(rankings) or gen.has_ties(rankings)) and id_order_differs(models[0], rankings)
    ctx.stats.case(case, nt, labels)


MIXED_NAMES = ["a", "7", "007", "3", "b", "4", "10", "c", "5", "6", "01", "d", "8", "9", "11", "1"]


@st.composite
def mixed_name_cases(draw, tier):
    """string names of which most are integer-like (the dataset keeps them all as strings because one name is not):
    sub-problems that only hold integer-like names must still give back the dataset's own elements"""
    from vlib import configs as cfgs
    name, env = draw(st.sampled_from(cfgs.PAIRS))
    cfg = cfgs.BY_NAME[name]
    from checks.common_alg import size_limit
    n = draw(st.sampled_from(list(range(2, size_limit(cfg, env, tier) + 1))))
    names = MIXED_NAMES[:n]
    shape = draw(st.sampled_from(["cyclic", "block_cyclic", "incomplete", "near_unanimous", "camps", "cyclic_ties"]))
    ds = draw(gen.datasets(max_n=n, min_n=n, max_m=5, shapes=[shape], kinds=("dense",), allow_empty_rankings=True))
    used = sorted({e for r in ds["rankings"] for b in r for e in b})
    ren = {e: names[i % n] for i, e in enumerate(used)}
    rankings = [[[ren[e] for e in b] for b in r] for r in ds["rankings"]]
    if not any("a" in b for r in rankings for b in r):
        rankings.append([["a"]])
    scheme = draw(st.one_of(gen.tie_averse_schemes(), gen.any_schemes(), gen.preset_multiples()))
    return {"config": name, "env": env, "scheme": scheme,
            "dataset": {"rankings": rankings, "shape": shape, "kind": "mixed"},
            "at_most_one": draw(st.booleans()), "rng": draw(st.integers(0, 999)), "via_mutation": None}


def accepted_family_cases(tier):
    """the algorithms that only accept some scheme families on incomplete data (Borda, PickAPerm, BioConsert started
    from them, ParCons delegating to them), under exactly those families: in the generic cases they mostly refuse"""
    from checks.c04 import restricted_cases
    return restricted_cases(tier)


@st.composite
def many_component_cases(draw, tier):
    """nine to fifteen elements in three to five Condorcet blocks: several hard components in ONE run of the
    partition-based algorithms (each component stays small, so exact solving is cheap and no oracle is needed here;
    the exact algorithm itself is not run at this size: without cplex it solves ONE model over all the elements, which
    can take minutes)"""
    from vlib import configs as cfgs
    # (only configurations whose exact solving is bounded to components of at most 3 elements: under some schemes the
    # blocks merge into one component of ten elements and more, which the cplex-less exact algorithm solves in minutes)
    name = draw(st.sampled_from(["parcons_copeland_b3", "parcons_copeland_b3", "parcons_kwik_b2", "parcons_b2",
                                 "parcons_bioco_b0", "enum_parcons_copeland_b2", "bioconsert", "kwiksort", "copeland"]))
    ds = draw(gen.datasets(max_n=15, min_n=9, max_m=5, shapes=["block_cyclic"], kinds=("dense", "str", "mixedstr", "negs")))
    scheme = draw(st.one_of(gen.tie_averse_schemes(), gen.tie_averse_schemes(), gen.preset_multiples(), gen.free_schemes()))
    return {"config": name, "env": "absent", "scheme": scheme, "dataset": ds, "at_most_one": True,
            "rng": draw(st.integers(0, 999)), "via_mutation": None}


def subchecks():
    return [HypSub("wellformed", alg_cases, check, quick=20000, thorough=250000),
            HypSub("many_components", many_component_cases, check, quick=500, thorough=8000),
            HypSub("mixed_names", mixed_name_cases, check, quick=4000, thorough=50000),
            HypSub("accepted_families", accepted_family_cases, check, quick=4000, thorough=50000)]
