"""C14 — declared scheme applicability is truthful; complete data is never refused."""
import random
from hypothesis import strategies as st
from vlib import gen, lib, configs, oracle, mutate
from vlib.harness import HypSub
from vlib.lib import Violation
from checks.common_alg import well_formed, size_limit, build_dataset
from corankco.algorithms.parcons.parcons import ParCons
from corankco.algorithms.bioconsert.bioconsert import BioConsert
from corankco.algorithms.bioconsert.bioco import BioCo
from corankco.algorithms.borda.borda import BordaCount
from corankco.algorithms.pickaperm.pickaperm import PickAPerm
from corankco.algorithms.copeland.copeland import CopelandMethod
from corankco.algorithms.kwiksort.kwiksortrandom import KwikSortRandom
from corankco.algorithms.exact.exactalgorithmbase import IncompatibleArgumentsException

META = {
    "level": "exploration",
    "engine": "hypothesis",
    "rule": "cases = (configuration, solver environment, scheme, dataset, flag) over the registry plus nested "
            "configurations (BioConsert started from Borda / PickAPerm / both / Borda+Copeland, BioCo, ParCons with "
            "Borda / BioCo / PickAPerm auxiliaries at bound 0); schemes = preset multiples, near-presets, free. "
            "Oracle: is_scoring_scheme_relevant_when_incomplete_rankings(scheme) returns a bool without raising; "
            "True => a well-formed consensus on the (incomplete) dataset; complete dataset => a well-formed consensus "
            "for every scheme; for Borda, PickAPerm and BioConsert started from them: a corankco-defined exception on "
            "an incomplete dataset <=> the predicate was False. Non-trivial: nested configuration or near-preset "
            "scheme, on an incomplete dataset with n>=3.",
    "assumptions": ["optimize=True with all rankings requested is a documented usage error "
                    "(IncompatibleArgumentsException), counted but not asserted",
                    "stand-in solver for CPLEX paths"],
    "budget_s": {"quick": 110, "thorough": 800},
    "floors": {"applicability/incomplete": 0.4},
}

EXTRA = {
    "bioconsert_borda": (lambda: BioConsert([BordaCount()]), True),
    "bioconsert_pick": (lambda: BioConsert([PickAPerm()]), True),
    "bioconsert_borda_copeland": (lambda: BioConsert([BordaCount(use_bucket_id=True), CopelandMethod()]), True),
    # starting algorithms given as a one-shot iterable (the constructor accepts any Iterable), as a tuple
    "bioconsert_iter_borda_copeland": (lambda: BioConsert(iter([BordaCount(), CopelandMethod()])), True),
    "bioconsert_tuple_pick_kwik": (lambda: BioConsert((PickAPerm(), KwikSortRandom())), True),
    "parcons_pick_b0": (lambda: ParCons(auxiliary_algorithm=PickAPerm(), bound_for_exact=0), False),
    "parcons_bioconsert_borda_b1": (lambda: ParCons(auxiliary_algorithm=BioConsert([BordaCount()]), bound_for_exact=1),
                                    False),
}
# configurations for which "refuses <=> predicate False" is asserted
IFF = {"enum_bioconsert_borda", "bioconsert_iter_borda_copeland", "bioconsert_tuple_pick_kwik", "borda", "borda_bucket", "enum_borda", "enum_borda_bucket", "pickaperm", "enum_pickaperm", "bioco",
       "enum_bioco", "bioconsert_borda_pick", "bioconsert_borda", "bioconsert_pick", "bioconsert_borda_copeland"}
NESTED = {"enum_bioconsert_borda", "enum_parcons_copeland_b2", "bioco", "enum_bioco", "bioconsert_borda_pick", "parcons_bioco_b0", "parcons_borda_b0",
          "bioconsert_kwik_cop_borda", "bioconsert_copeland", "bioconsert_kwik"} | set(EXTRA)
ALL = [(c.name, e) for c in configs.CONFIGS for e in c.envs] + [(n, "absent") for n in EXTRA]
WEIGHTED = ALL + [(n, e) for (n, e) in ALL if n in IFF or n in NESTED] * 2


def make(name):
    if name in EXTRA:
        return EXTRA[name][0]()
    return configs.BY_NAME[name].factory()


def schemes():
    return st.one_of(gen.preset_multiples(), gen.preset_multiples(), gen.near_presets(), gen.near_presets(),
                     gen.free_schemes(), gen.decimal_schemes())


@st.composite
def cases(draw, tier):
    name, env = draw(st.sampled_from(WEIGHTED))
    cfg = configs.BY_NAME.get(name)
    if cfg is not None:
        mx = size_limit(cfg, env, tier)
    else:
        mx = 6
    complete = draw(st.sampled_from([False, False, True]))
    shapes = ["complete", "identical", "near_unanimous", "cyclic"] if complete else \
        ["incomplete", "incomplete", "sparse_block", "near_unanimous_incomplete", "cyclic_incomplete", "block_cyclic"]
    ds = draw(gen.datasets(max_n=mx, min_n=2, max_m=5, shapes=shapes, allow_empty_rankings=not complete, many="byte"))
    return {"config": name, "env": env, "scheme": draw(schemes()), "dataset": ds,
            "at_most_one": draw(st.sampled_from([True, True, False])), "rng": draw(st.integers(0, 9999)),
            # one case in three: the Dataset object reached these rankings through an in-place mutation
            "via_mutation": draw(mutate.via_strategy(ds["rankings"], p=3)),
            # what the algorithm instance did before: nothing, or a run on a COMPLETE / an incomplete dataset under the
            # same penalties (its answers about a scheme must not depend on what it saw first)
            "prelude": draw(st.sampled_from([None, None, "complete", "complete", "incomplete"]))}


def check(case, ctx):
    rankings, scheme, name = case["dataset"]["rankings"], case["scheme"], case["config"]
    d, s = build_dataset(case), lib.mk_scheme(scheme)
    complete = gen.is_complete(rankings)
    n = len(oracle.universe(rankings))
    near = not any(lib.is_dyadic(scheme) and scheme == gen.scale(p, k) for p in gen.PRESETS.values()
                   for k in gen.DYADIC_FACTORS)
    with configs.solver_env(case["env"]):
        alg = lib.must(make, name)
        if case.get("prelude"):
            pre = [[[1], [2, 3], [4]], [[4, 1], [2], [3]]] if case["prelude"] == "complete" else [[[1], [2, 3]], [[3], [4]]]
            try:
                with lib.quiet():
                    alg.compute_consensus_rankings(lib.mk_dataset(pre), lib.mk_scheme(scheme), True)
            except Exception:  # noqa  (a refusal of the prelude is not the subject)
                pass
        pred = lib.must(alg.is_scoring_scheme_relevant_when_incomplete_rankings, s)
        if not isinstance(pred, bool):
            raise Violation("%s.is_scoring_scheme_relevant_when_incomplete_rankings returned %r (%s), not a bool" % (
                name, pred, type(pred).__name__))
        random.seed(case["rng"])
        try:
            with lib.quiet():
                val = alg.compute_consensus_rankings(d, s, case["at_most_one"])
            raised = None
        except IncompatibleArgumentsException:
            ctx.stats.case(case, False, ["usage_error"])
            return
        except Exception as e:  # noqa
            raised = e
    nt = (name in NESTED or near) and not complete and n >= 3
    ctx.stats.case(case, nt, ["cfg:" + name, "env:" + case["env"], "complete" if complete else "incomplete",
                              "pred:%s" % pred, "raised" if raised is not None else "answered",
                              "iff_config" if name in IFF else "other_config"])
    in_lib = raised is not None and type(raised).__module__.startswith("corankco")
    if raised is not None and not in_lib:
        raise Violation("%s (cplex %s) failed with %s: %s on a %s dataset (predicate %s, scheme %s)" % (
            name, case["env"], type(raised).__name__, str(raised)[:200], "complete" if complete else "incomplete",
            pred, scheme))
    if complete and raised is not None:
        raise Violation("%s refused a COMPLETE dataset under scheme %s with %s" % (name, scheme,
                                                                                    type(raised).__name__))
    if not complete and pred and raised is not None:
        raise Violation("%s declares scheme %s relevant for incomplete rankings but refuses the incomplete dataset %s "
                        "with %s" % (name, scheme, rankings, type(raised).__name__))
    if not complete and name in IFF and not pred and raised is None:
        raise Violation("%s declares scheme %s NOT relevant for incomplete rankings but computed a consensus on the "
                        "incomplete dataset %s" % (name, scheme, rankings))
    if raised is None:
        well_formed(val, rankings, case["at_most_one"], name)


def subchecks():
    return [HypSub("applicability", cases, check, 20000, 250000)]
