"""C11 — KwikSort's result is pivot-independent when pairwise preferences cohere."""
import random
from hypothesis import strategies as st
from vlib import gen, lib, oracle, mutate
from vlib.harness import HypSub
from vlib.lib import Violation
from checks.common_alg import well_formed
from corankco.algorithms.kwiksort import kwiksortrandom as ksr_mod
from corankco.algorithms.kwiksort.kwiksortrandom import KwikSortRandom

META = {
    "level": "exploration",
    "engine": "exhaustive schedule DFS (all pivot sequences for n<=5 quick / n<=6 thorough) + hypothesis",
    "rule": "The checker owns the pivot choice: the name `choice` used by KwikSortRandom (and random.choice) is rebound "
            "to a function that follows a schedule, and _get_pivot is wrapped to record (elements, pivot) of every "
            "recursion step. For small universes ALL pivot sequences of the schedule tree are enumerated (odometer "
            "DFS); for larger ones Hypothesis draws schedules. Oracle: reference cheapest-placement relation "
            "(tie if tied <= both, else before if before <= after, else after) from exact pair costs. (1) relation "
            "coherent (antisymmetric, ties an equivalence, before a strict weak order compatible with ties) => result "
            "== induced ranking for every schedule; (2) complete identical rankings with T[0]>0 and B[2]>0 => result "
            "== that ranking; (3) every dataset/schedule: each element is placed relative to the pivot of its "
            "recursion step as the relation says. Non-trivial: n>=4, incomplete with ties and a schedule tree with "
            ">=6 leaves (all_schedules), coherent relation with >=3 buckets (coherent).",
    "exhaustive": {"quick": ["all pivot sequences of every generated dataset with n<=5"],
                   "thorough": ["all pivot sequences of every generated dataset with n<=6"]},
    "assumptions": ["dyadic penalties only (exact tie decisions)",
                    "if a refactor stops consulting the rebindable chooser the check degrades to sampled schedules "
                    "(random.seed) and evidence label schedule_control:false appears"],
    "budget_s": {"quick": 110, "thorough": 800},
}

SHAPES_COH = ["identical", "near_unanimous", "near_unanimous", "near_unanimous_incomplete", "complete"]
SHAPES_ANY = ["incomplete", "incomplete", "sparse_block", "cyclic_incomplete", "near_unanimous_incomplete", "complete",
              "cyclic", "identical", "block_cyclic"]


class Driver:
    """runs KwikSortRandom under a pivot schedule; records steps"""

    def __init__(self):
        self.schedule = []
        self.pos = 0
        self.arities = []
        self.steps = []
        self.chooser_calls = 0
        self.alg = KwikSortRandom()       # ONE instance serves every schedule of a case

    def chooser(self, seq):
        self.chooser_calls += 1
        seq = list(seq)
        k = self.schedule[self.pos] if self.pos < len(self.schedule) else 0
        self.pos += 1
        self.arities.append(len(seq))
        return seq[k % len(seq)]

    def run(self, d, s, schedule, seed=0):
        self.schedule, self.pos, self.arities, self.steps, self.chooser_calls = list(schedule), 0, [], [], 0
        orig_choice_mod = getattr(ksr_mod, "choice", None)
        orig_random_choice = random.choice
        orig_get_pivot = KwikSortRandom._get_pivot
        drv = self

        def wrapped(self_, mapping, elements, positions, scheme):
            els = list(elements)
            p = orig_get_pivot(self_, mapping, elements, positions, scheme)
            drv.steps.append((els, p))
            return p

        try:
            if orig_choice_mod is not None:
                ksr_mod.choice = self.chooser
            random.choice = self.chooser
            KwikSortRandom._get_pivot = wrapped
            random.seed(seed)
            with lib.quiet():
                return self.alg.compute_consensus_rankings(d, s, True)
        finally:
            if orig_choice_mod is not None:
                ksr_mod.choice = orig_choice_mod
            random.choice = orig_random_choice
            KwikSortRandom._get_pivot = orig_get_pivot


def relation(inst):
    n = inst.n
    return [[0 if i == j else inst.placement(inst.elements[i], inst.elements[j]) for j in range(n)] for i in range(n)]


def coherent_order(inst, P):
    """the ranking induced by the relation if it is coherent, else None"""
    n = inst.n
    for i in range(n):
        for j in range(n):
            if i != j and P[i][j] != -P[j][i]:
                return None
    for i in range(n):
        for j in range(n):
            if i == j:
                continue
            for k in range(n):
                if k in (i, j):
                    continue
                if P[i][j] == 0 and P[i][k] != P[j][k]:
                    return None
                if P[i][j] == -1 and P[j][k] == -1 and P[i][k] != -1:
                    return None
    nb_before = [sum(1 for j in range(n) if j != i and P[j][i] == -1) for i in range(n)]
    groups = {}
    for i in range(n):
        groups.setdefault(nb_before[i], []).append(inst.elements[i])
    return [groups[k] for k in sorted(groups)]


def check_steps(inst, P, model, steps, what):
    cb = oracle.bucket_index(model)
    for els, pivot in steps:
        pv = lib.raw(pivot)
        if pv not in inst.idx:
            raise Violation("%s: pivot %r is not an element of the dataset" % (what, pv))
        for e in els:
            ev = lib.raw(e)
            if ev == pv:
                continue
            want = P[inst.idx[ev]][inst.idx[pv]]
            got = -1 if cb[ev] < cb[pv] else (1 if cb[ev] > cb[pv] else 0)
            if got != want:
                names = {-1: "before", 0: "tied with", 1: "after"}
                b, a, t = inst.triple_fr(ev, pv)
                raise Violation("%s: element %r ends up %s pivot %r of its recursion step, cheapest placement is %s "
                                "(costs before/after/tied = %s/%s/%s); result %s" % (
                                    what, ev, names[got], pv, names[want], b, a, t, model))


def next_schedule(schedule, arities):
    """odometer step over the schedule tree; None when exhausted"""
    s = [(schedule[i] if i < len(schedule) else 0) for i in range(len(arities))]
    i = len(arities) - 1
    while i >= 0:
        if s[i] + 1 < arities[i]:
            return s[:i] + [s[i] + 1]
        i -= 1
    return None


def run_one(drv, d, s, inst, P, induced, rankings, schedule, what, seed=0):
    st_, val = lib.call(drv.run, d, s, schedule, seed)
    model = well_formed(val, rankings, True, "KwikSort")[0]
    check_steps(inst, P, model, drv.steps, what)
    if induced is not None and oracle.canon(model) != oracle.canon(induced):
        raise Violation("%s: pairwise preferences are coherent and induce %s, but KwikSort returned %s with pivots %s"
                        % (what, induced, model, [lib.raw(p) for _, p in drv.steps]))
    return model


@st.composite
def small_cases(draw, tier):
    mx = 6 if tier == "thorough" else 5
    scheme = draw(gen.dyadic_schemes())
    ds = draw(gen.datasets(max_n=mx, min_n=2, max_m=4, shapes=SHAPES_ANY + SHAPES_COH, many="byte"))
    return {"scheme": scheme, "dataset": ds, "via_mutation": draw(mutate.via_strategy(ds["rankings"], p=4))}


def check_all_schedules(case, ctx):
    rankings, scheme = case["dataset"]["rankings"], case["scheme"]
    s = lib.mk_scheme(scheme)
    inst = oracle.Instance(rankings, scheme)
    P = relation(inst)
    induced = coherent_order(inst, P)
    drv = Driver()
    # the Dataset object may have been used by the SAME KwikSort instance and then mutated in place
    d = mutate.build(rankings, case.get("via_mutation"), lambda d0: drv.alg.compute_consensus_rankings(d0, s, True))
    schedule, leaves, controlled = [], 0, True
    results = set()
    while schedule is not None and leaves < 800:
        model = run_one(drv, d, s, inst, P, induced, rankings, schedule, "schedule %s" % schedule)
        results.add(oracle.canon(model))
        leaves += 1
        if drv.chooser_calls == 0 and drv.steps:
            controlled = False
            break
        schedule = next_schedule(schedule, drv.arities)
    if not controlled:
        for k in range(30):
            run_one(drv, d, s, inst, P, induced, rankings, [], "random.seed(%d)" % k, seed=k)
    nt = inst.n >= 4 and not gen.is_complete(rankings) and gen.has_ties(rankings) and leaves >= 6
    ctx.stats.case(case, nt, gen.dataset_labels(case["dataset"]) + [
        "schedule_control:%s" % str(controlled).lower(), "coherent" if induced is not None else "incoherent",
        "leaves>=6" if leaves >= 6 else "leaves<6", "distinct_results:%d" % min(len(results), 4)])
    ctx.stats.extra["pivot_sequences"] = ctx.stats.extra.get("pivot_sequences", 0) + leaves


@st.composite
def coherent_cases(draw, tier):
    mx = 12 if tier == "thorough" else 8
    scheme = draw(gen.dyadic_schemes())
    ds = draw(gen.datasets(max_n=mx, min_n=2, max_m=5, shapes=SHAPES_COH, allow_empty_rankings=False, many="thousand"))
    scheds = [draw(st.lists(st.integers(0, 11), min_size=0, max_size=12)) for _ in range(4)]
    return {"scheme": scheme, "dataset": ds, "schedules": scheds}


def check_sampled(case, ctx):
    rankings, scheme = case["dataset"]["rankings"], case["scheme"]
    d, s = lib.mk_dataset(rankings), lib.mk_scheme(scheme)
    inst = oracle.Instance(rankings, scheme)
    P = relation(inst)
    induced = coherent_order(inst, P)
    identical = (len({oracle.canon(r) for r in rankings}) == 1 and gen.is_complete(rankings)
                 and scheme[1][0] > 0 and scheme[0][2] > 0)
    if identical:
        if induced is None or oracle.canon(induced) != oracle.canon(rankings[0]):
            raise lib.HarnessError("oracle: identical rankings %s with T0>0,B2>0 should induce themselves, got %s" % (
                rankings[0], induced))
    drv = Driver()
    d = mutate.build(rankings, case.get("via_mutation"), lambda d0: drv.alg.compute_consensus_rankings(d0, s, True))
    for k, sch in enumerate(case["schedules"]):
        run_one(drv, d, s, inst, P, induced, rankings, sch, "schedule %s" % sch, seed=k)
    ctx.stats.case(case, induced is not None and len(induced) >= 3,
                   gen.dataset_labels(case["dataset"]) + ["coherent" if induced is not None else "incoherent",
                                                          "identical_unchanged_claim" if identical else "not_identical"])


@st.composite
def any_cases(draw, tier):
    mx = 12 if tier == "thorough" else 9
    scheme = draw(gen.dyadic_schemes())
    ds = draw(gen.datasets(max_n=mx, min_n=2, max_m=5, shapes=SHAPES_ANY, many="thousand"))
    scheds = [draw(st.lists(st.integers(0, 11), min_size=0, max_size=12)) for _ in range(3)]
    return {"scheme": scheme, "dataset": ds, "schedules": scheds,
            "via_mutation": draw(mutate.via_strategy(ds["rankings"], p=4))}


def subchecks():
    return [HypSub("all_schedules", small_cases, check_all_schedules, 2500, 20000),
            HypSub("coherent", coherent_cases, check_sampled, 12000, 100000),
            HypSub("pivot_relation", any_cases, check_sampled, 12000, 100000)]
