"""C02 — pairwise cost table matches the definition, is mirror-consistent, and sums to the Kemeny score."""
import numpy as np
from hypothesis import strategies as st
from vlib import gen, oracle, lib, mutate
from vlib.harness import HypSub, EnumSub
from vlib.lib import Violation
from checks.c01 import small_datasets, DECODER
from corankco.algorithms.pairwisebasedalgorithm import PairwiseBasedAlgorithm

META = {
    "level": "exploration",
    "engine": "hypothesis + exhaustive small-scope enumeration",
    "rule": "cases = (scheme, dataset, 3 complete candidates); for every ordered pair the three table entries are "
            "compared with the per-pair definition in exact arithmetic; mirror and positions==bucket-ids are bit-exact; "
            "selected entries are summed and compared with the reference score and with get_kemeny_score. The three "
            "public entry points (pairwise_cost_matrix, graph_of_elements, graph_of_elements_with_robust_arcs) must "
            "return the same table. Exhaustive: all datasets n<=3,m<=2 (thorough: n<=4,m<=2; n=3,m=3) under the decoder "
            "scheme. weighted_table: the optional per-ranking weights of the three entry points (ParFront-style callers) "
            "give the weighted sum of the per-ranking penalties, and for integer weights the table of the dataset with "
            "each ranking repeated. Non-trivial: all six pair statuses occur in the dataset, B[3]!=B[4] and "
            "B[5]!=T[5].",
    "exhaustive": {"quick": ["all datasets n<=3,m<=2 (decoder scheme), all pairs"],
                   "thorough": ["all datasets n<=3,m<=3; n=4,m<=2 (decoder scheme), all pairs"]},
    "assumptions": ["element ids are resolved through dataset.mapping_elem_id (its correctness is C16's subject)",
                    "decimal schemes: relative tolerance 1e-9; dyadic: exact"],
    "budget_s": {"quick": 100, "thorough": 700},
    "floors": {"table_random/incomplete": 0.3},
}


def statuses_present(rankings, univ):
    seen = set()
    bis = [oracle.bucket_index(r) for r in rankings]
    for x in univ:
        for y in univ:
            if x != y:
                for bi in bis:
                    seen.add(oracle.status(bi, x, y))
    return seen


@st.composite
def table_cases(draw, tier):
    big = tier == "thorough"
    scheme = draw(gen.any_schemes())
    ds = draw(gen.datasets(max_n=12 if big else 8, max_m=8 if big else 5, many="thousand"))
    univ = oracle.universe(ds["rankings"])
    cands = [draw(gen.candidates(univ)) for _ in range(3)]
    return {"scheme": scheme, "dataset": ds, "cands": cands,
            "via_mutation": draw(mutate.via_strategy(ds["rankings"], p=4))}


def ids_of(d, univ):
    """element name -> library id, validated"""
    m = d.mapping_elem_id
    out = {}
    for e in univ:
        i = m.get(lib.Element(e))
        if i is None:
            raise Violation("element %r has no id in mapping_elem_id" % (e,))
        out[e] = i
    if sorted(out.values()) != list(range(len(univ))):
        raise Violation("ids are not a bijection onto 0..n-1: %r" % (out,))
    return out


def check_table(case, ctx, scheme=None, d=None):
    scheme = scheme or case["scheme"]
    rankings = case["dataset"]["rankings"] if "dataset" in case else case["rankings"]
    d = d if d is not None else lib.mk_dataset(rankings)
    s = lib.mk_scheme(scheme)
    inst = oracle.Instance(rankings, scheme)
    univ = inst.elements
    ids = ids_of(d, univ)
    pos = lib.must(d.get_positions)
    bid = lib.must(d.get_bucket_ids)
    mat = lib.must(PairwiseBasedAlgorithm.pairwise_cost_matrix, pos, s)
    mat_b = lib.must(PairwiseBasedAlgorithm.pairwise_cost_matrix, bid, s)
    n = len(univ)
    if getattr(mat, "shape", None) != (n, n, 3):
        raise Violation("table has shape %r, expected (%d,%d,3)" % (getattr(mat, "shape", None), n, n))
    if not np.array_equal(mat, mat_b):
        raise Violation("table built from positions differs from the one built from bucket ids")
    _, mat_g = lib.must(PairwiseBasedAlgorithm.graph_of_elements, pos, s)
    _, mat_r, _ = lib.must(PairwiseBasedAlgorithm.graph_of_elements_with_robust_arcs, pos, s)
    if not (np.array_equal(mat, mat_g) and np.array_equal(mat, mat_r)):
        raise Violation("graph_of_elements / graph_of_elements_with_robust_arcs hand out a different table")
    seen = statuses_present(rankings, univ)
    nt = (len(seen) == 6 and scheme[0][3] != scheme[0][4] and scheme[0][5] != scheme[1][5])
    labels = (gen.dataset_labels(case["dataset"]) + gen.scheme_labels(scheme)) if "dataset" in case else []
    ctx.stats.case(case, nt, labels + ["statuses:%d" % len(seen)])
    for x in univ:
        for y in univ:
            if x == y:
                continue
            i, j = ids[x], ids[y]
            want = inst.triple_fr(x, y)
            for k, nm in enumerate(("before", "after", "tied")):
                lib.check_score(mat[i][j][k], want[k], scheme, "%s(%r,%r)" % (nm, x, y))
            if not (mat[i][j][0] == mat[j][i][1] and mat[i][j][2] == mat[j][i][2]):
                raise Violation("table not mirror-consistent on (%r,%r): %r vs %r" % (x, y, list(mat[i][j]),
                                                                                       list(mat[j][i])))
    kc = lib.KemenyComputingFactory(s)
    for cand in case.get("cands", []):
        cb = oracle.bucket_index(cand)
        tot = 0.0
        for a in range(n):
            for b in range(a + 1, n):
                x, y = univ[a], univ[b]
                i, j = ids[x], ids[y]
                if cb[x] < cb[y]:
                    tot += mat[i][j][0]
                elif cb[x] > cb[y]:
                    tot += mat[i][j][1]
                else:
                    tot += mat[i][j][2]
        want = inst.score(cand)
        if lib.is_dyadic(scheme):
            if float(tot) != float(want):
                raise Violation("selected table entries sum to %r, score of %s is %s" % (tot, cand, want))
        elif not lib.approx_equal(tot, want, 1e-9):
            raise Violation("selected table entries sum to %r, score of %s is %s" % (tot, cand, want))
        got = lib.must(kc.get_kemeny_score, lib.mk_ranking(cand), d)
        if not lib.approx_equal(got, tot, 1e-9):
            raise Violation("get_kemeny_score(%s)=%r but the table entries it selects sum to %r" % (cand, got, tot))


def check_small(case, ctx):
    check_table(case, ctx, scheme=DECODER)


def check_table_batched(case, ctx):
    # generation dominates the cost: the drawn scheme, then the decoder scheme on the same dataset and candidates
    # the same Dataset object serves both tables (and is then used a third time under the drawn scheme)
    sch = lib.mk_scheme(case["scheme"])

    def warm(d0):
        PairwiseBasedAlgorithm.pairwise_cost_matrix(d0.get_positions(), sch)
        PairwiseBasedAlgorithm.graph_of_elements_with_robust_arcs(d0.get_positions(), sch)
    d = mutate.build(case["dataset"]["rankings"], case.get("via_mutation"), warm)
    check_table(case, ctx, d=d)
    check_table(case, ctx, scheme=DECODER, d=d)
    check_table(case, ctx, d=d)


@st.composite
def large_cases(draw, tier):
    ds = draw(gen.large_datasets())
    univ = oracle.universe(ds["rankings"])
    return {"scheme": draw(gen.any_schemes()), "dataset": ds, "cands": [draw(gen.candidates(univ))]}


WEIGHTS = [0.25, 0.5, 1.0, 1.0, 2.0, 3.0]


@st.composite
def weighted_cases(draw, tier):
    ds = draw(gen.datasets(max_n=7, max_m=5))
    return {"scheme": draw(gen.any_schemes()), "dataset": ds,
            "weights": [draw(st.sampled_from(WEIGHTS)) for _ in ds["rankings"]]}


def check_weighted(case, ctx):
    """the three public entry points take one weight per ranking: the table is then the weighted sum of the per-ranking
    penalties (for integer weights: the table of the dataset in which ranking i is repeated weights[i] times)"""
    from fractions import Fraction
    rankings, scheme, ws = case["dataset"]["rankings"], case["scheme"], case["weights"]
    d, s = lib.mk_dataset(rankings), lib.mk_scheme(scheme)
    univ = oracle.universe(lib.normalized(rankings))
    ids = ids_of(d, univ)
    w = np.array(ws, dtype=float)
    pos = lib.must(d.get_positions)
    mat = lib.must(PairwiseBasedAlgorithm.pairwise_cost_matrix, pos, s, w)
    _, mat_g = lib.must(PairwiseBasedAlgorithm.graph_of_elements, pos, s, w)
    _, mat_r, _ = lib.must(PairwiseBasedAlgorithm.graph_of_elements_with_robust_arcs, pos, s, w)
    if not (np.array_equal(mat, mat_g) and np.array_equal(mat, mat_r)):
        raise Violation("weights %s: graph_of_elements / graph_of_elements_with_robust_arcs hand out a different table"
                        % (ws,))
    per = [oracle.Instance([r], scheme, elements=univ) for r in lib.normalized(rankings)]
    seen = statuses_present(rankings, univ)
    ctx.stats.case(case, len(seen) == 6 and len(set(ws)) > 1 and scheme[0][5] != scheme[1][5],
                   gen.dataset_labels(case["dataset"]) + ["weights:" + ("unit" if set(ws) == {1.0} else "mixed")])
    for x in univ:
        for y in univ:
            if x == y:
                continue
            want = [sum(Fraction(wi) * inst.triple_fr(x, y)[k] for wi, inst in zip(ws, per)) for k in range(3)]
            for k, nm in enumerate(("before", "after", "tied")):
                got = mat[ids[x]][ids[y]][k]
                if not lib.approx_equal(got, want[k], 1e-9):
                    raise Violation("weights %s: %s(%r,%r) = %r but the weighted definition gives %s" % (
                        ws, nm, x, y, got, want[k]))
    if all(float(wi).is_integer() for wi in ws):
        rep = [r for r, wi in zip(rankings, ws) for _ in range(int(wi))]
        d2 = lib.mk_dataset(rep)
        ids2 = ids_of(d2, univ)
        mat2 = lib.must(PairwiseBasedAlgorithm.pairwise_cost_matrix, lib.must(d2.get_positions), s)
        for x in univ:
            for y in univ:
                if x != y and not np.allclose(mat[ids[x]][ids[y]], mat2[ids2[x]][ids2[y]], rtol=1e-9, atol=0):
                    raise Violation("integer weights %s: entry (%r,%r) = %r differs from the entry %r of the dataset "
                                    "with each ranking repeated" % (ws, x, y, list(mat[ids[x]][ids[y]]),
                                                                    list(mat2[ids2[x]][ids2[y]])))


def subchecks():
    return [
        HypSub("table_random", table_cases, check_table_batched, quick=10000, thorough=150000),
        HypSub("table_large", large_cases, check_table, quick=300, thorough=4000),
        HypSub("weighted_table", weighted_cases, check_weighted, quick=3000, thorough=40000),
        EnumSub("small_scope", small_datasets, check_small),
    ]
