"""C08 — BioConsert returns a local optimum of the Kemeny score."""
import random
from hypothesis import strategies as st
from vlib import gen, lib, configs, oracle, mutate
from vlib.harness import HypSub
from vlib.lib import Violation
from checks.common_alg import well_formed, run_case

META = {
    "level": "exploration",
    "engine": "hypothesis (oracle: every single-element move re-scored exactly)",
    "rule": "cases = (BioConsert configuration in {default, BioCo, [Copeland], [KwikSort], [Borda, PickAPerm], "
            "[KwikSort, Copeland, Borda(bucket)]}, scheme, dataset with many ties, all rankings requested or one). For "
            "every returned ranking, every element and every target (join each other existing bucket; new singleton "
            "bucket at each position) the exact score change must be >= -0.001 (the algorithm's threshold; 1e-9 slack "
            "for decimal penalties). Non-trivial: a returned ranking has >=3 buckets, >=2 of them multi-element, and "
            "differs from every (unified) input ranking.",
    "assumptions": ["moves considered are exactly those of the statement (change bucket / new bucket), scored from "
                    "the oracle's own pair costs"],
    "budget_s": {"quick": 110, "thorough": 800},
    "floors": {"local_optimum/incomplete": 0.3},
}

CFGS = ["bioconsert", "bioconsert", "bioco", "bioconsert_copeland", "bioconsert_kwik", "bioconsert_borda_pick",
        "bioconsert_kwik_cop_borda", "enum_bioconsert", "enum_bioco"]


@st.composite
def cases(draw, tier):
    big = tier == "thorough"
    name = draw(st.sampled_from(CFGS))
    # Borda / PickAPerm starters only accept the unifying (induced) families on incomplete data
    scheme = draw(st.one_of(gen.any_schemes(), gen.any_schemes(),
                            gen.preset_multiples(["unifying", "unifying_half", "induced", "induced_half"])))
    ds = draw(gen.datasets(max_n=draw(st.sampled_from([6, 10, 16, 30])) if big else draw(st.sampled_from([5, 8, 10])),
                           max_m=6, min_n=3))
    return {"config": name, "env": "absent", "scheme": scheme, "dataset": ds,
            "at_most_one": draw(st.sampled_from([False, False, True])), "rng": draw(st.integers(0, 9999)),
            "via_mutation": draw(mutate.via_strategy(ds["rankings"], p=5)),
            "prelude": draw(st.sampled_from([None, None, "reordered", "reordered", "renamed", "other"]))}


def best_move(inst, model):
    """(min over all single-element moves of the scaled score change, description of the move)"""
    worst = (0, None)
    for bi, bucket in enumerate(model):
        for e in bucket:
            rest = [[x for x in b if x != e] for b in model]
            orig_alone = len(bucket) == 1
            rest = [b for b in rest if b]
            ie = inst.idx[e]

            def cost(kind, p):
                c = 0
                for j, b in enumerate(rest):
                    for y in b:
                        iy = inst.idx[y]
                        if kind == "join" and j == p:
                            c += inst.tied[ie][iy]
                        elif (kind == "join" and j < p) or (kind == "new" and j < p):
                            c += inst.before[iy][ie]      # y before e
                        else:
                            c += inst.before[ie][iy]      # e before y
                return c
            if orig_alone:
                base = cost("new", bi)
            else:
                base = cost("join", bi)
            for p in range(len(rest)):
                d = cost("join", p) - base
                if d < worst[0]:
                    worst = (d, "move %r into bucket %s" % (e, rest[p]))
            for p in range(len(rest) + 1):
                d = cost("new", p) - base
                if d < worst[0]:
                    worst = (d, "put %r alone in a new bucket at position %d" % (e, p))
    return worst


def check(case, ctx):
    rankings, scheme = case["dataset"]["rankings"], case["scheme"]
    case.setdefault("env", "absent")
    status, val, alg, d, s = run_case(case)
    labels = gen.dataset_labels(case["dataset"]) + ["cfg:" + case["config"], "status:" + status]
    if status != "ok":
        ctx.stats.case(case, False, labels)
        return
    models = well_formed(val, rankings, case["at_most_one"], case["config"])
    inst = oracle.Instance(rankings, scheme)
    univ = inst.elements
    starts = {oracle.canon(oracle.unify(r, univ)) for r in rankings}
    nt = any(len(m) >= 3 and sum(1 for b in m if len(b) > 1) >= 2 and oracle.canon(m) not in starts for m in models)
    ctx.stats.case(case, nt, labels + ["returned:%d" % min(len(models), 4),
                                       "res_buckets>=3" if any(len(m) >= 3 for m in models) else "res_buckets<3",
                                       "res_multi>=2" if any(sum(1 for b in m if len(b) > 1) >= 2 for m in models)
                                       else "res_multi<2",
                                       "res_new" if any(oracle.canon(m) not in starts for m in models) else "res_is_input"])
    for m in models:
        delta, what = best_move(inst, m)
        if float(inst.sc.to_fraction(delta)) < -0.001 - 1e-9:
            raise Violation("%s returned %s (score %s) but it improves by %s if we %s" % (
                case["config"], m, inst.score(m), inst.sc.to_fraction(-delta), what))


def subchecks():
    return [HypSub("local_optimum", cases, check, 24000, 200000)]
