"""C10 — PickAPerm returns exactly the best input rankings."""
from fractions import Fraction
from hypothesis import strategies as st
from vlib import gen, lib, configs, oracle, mutate
from vlib.harness import HypSub
from vlib.lib import Violation
from checks.common_alg import well_formed
from corankco.algorithms.pickaperm.pickaperm import PickAPerm
from corankco.algorithms.algorithm_choice import get_algorithm, Algorithm

META = {
    "level": "exploration",
    "engine": "hypothesis",
    "rule": "cases = (dyadic scheme, dataset, flag): complete datasets x any scheme; incomplete datasets x (positive "
            "multiples of the unifying preset | the unifying preset with exactly one entry changed, in T only or in "
            "B only | other schemes). Oracle: candidates = input rankings (completed with a last bucket of their "
            "missing elements when the dataset is incomplete); every returned ranking is a candidate whose exact "
            "score is the minimum over candidates; all requested => every distinct minimal candidate is returned; one "
            "requested => exactly one; incomplete x scheme not proportional to the unifying preset on all 12 "
            "penalties => refused with an exception class defined by corankco. Non-trivial: >=3 distinct candidates "
            "with >=2 minimal ones, or a refusal on a near-unifying scheme.",
    "assumptions": ["exact-tie question: dyadic penalties only"],
    "budget_s": {"quick": 100, "thorough": 700},
    "floors": {"pickaperm/incomplete": 0.3},
}

UNIFYING = gen.PRESETS["unifying"]
SHAPES = ["identical", "near_unanimous", "near_unanimous", "near_unanimous_incomplete", "near_unanimous_incomplete",
          "incomplete", "complete", "cyclic", "cyclic_incomplete", "sparse_block", "singletons", "singletons", "splits", "splits", "clones"]


def proportional(a, b, upto=6):
    """exists k>0 with a == k*b on entries 0..upto-1 of both vectors (exact)"""
    k = None
    for v in (0, 1):
        for i in range(upto):
            x, y = Fraction(a[v][i]), Fraction(b[v][i])
            if (x == 0) != (y == 0):
                return False
            if x != 0:
                if k is None:
                    k = x / y
                elif x / y != k:
                    return False
    return k is None or k > 0



@st.composite
def preludes(draw):
    """what the long-lived algorithm instance of a case did BEFORE the case's own dataset: nothing, or a run on another
    small dataset (tie-free and complete half of the time), under some scheme"""
    if draw(st.integers(0, 2)) == 0:
        return None
    shape = draw(st.sampled_from(["complete", "complete", "incomplete", "near_unanimous", "identical"]))
    ds = draw(gen.datasets(max_n=5, max_m=3, shapes=[shape], kinds=("dense", "str"), allow_empty_rankings=False))
    if draw(st.booleans()):
        ds["rankings"] = [[[e] for b in r for e in b] for r in ds["rankings"]]          # break every tie
    return {"rankings": ds["rankings"], "scheme": draw(gen.preset_multiples(["unifying", "induced", "unifying_half"]))}


def run_prelude(algs, prelude):
    if not prelude:
        return
    d0, s0 = lib.mk_dataset(prelude["rankings"]), lib.mk_scheme(prelude["scheme"])
    for a in algs:
        try:
            with lib.quiet():
                a.compute_consensus_rankings(d0, s0, True)
        except Exception:  # noqa  (a refusal of the prelude is not the subject)
            pass


@st.composite
def cases(draw, tier):
    big = tier == "thorough"
    fam = draw(st.sampled_from(["unifying", "unifying", "near_unifying", "near_unifying", "other"]))
    if fam == "unifying":
        scheme = draw(gen.preset_multiples(["unifying"]))
    elif fam == "near_unifying":
        scheme = draw(gen.near_presets(["unifying"]))
    else:
        scheme = draw(gen.dyadic_schemes())
    ds = draw(gen.datasets(max_n=10 if big else 7, max_m=6, shapes=SHAPES))
    return {"scheme": scheme, "dataset": ds, "at_most_one": draw(st.booleans()), "family": fam,
            "via_enum": draw(st.booleans()), "prelude": draw(preludes()),
            "via_mutation": draw(mutate.via_strategy(ds["rankings"], p=4))}


EXTRA_SCHEMES = [gen.PRESETS["unifying"], gen.scale(gen.PRESETS["unifying"], 2.0), gen.PRESETS["extended"],
                 gen.PRESETS["pseudodistance_half"], gen.PRESETS["induced"],
                 [[0.0, 1.0, 1.0, 0.0, 1.0, 1.0], [0.5, 0.5, 0.0, 1.0, 1.0, 0.0]],
                 # cheap ties, symmetric (B[2] = T[0] well under B[1] / 2): the score is far from a metric
                 [[0.0, 1.0, 0.125, 0.0, 1.0, 0.0], [0.125, 0.125, 0.0, 0.125, 0.125, 0.0]],
                 # ties cost nothing either way: input rankings that only differ by ties all score the same (often 0)
                 [[0.0, 1.0, 0.0, 0.0, 0.0, 0.0], [0.0, 0.0, 0.0, 0.0, 0.0, 0.0]]]


def check(case, ctx):
    # generation dominates the cost: the drawn scheme, then a fixed family of schemes (unifying and a multiple, two
    # schemes under which the score is not a metric, induced, a near-unifying one)
    # ONE PickAPerm instance and ONE Dataset object serve the whole batch (state kept between runs must not leak)
    alg = get_algorithm(Algorithm.PICKAPERM) if case.get("via_enum") else PickAPerm()
    run_prelude([alg], case.get("prelude"))
    first = lib.mk_scheme(case["scheme"])
    shared = {"alg": alg, "d": mutate.build(case["dataset"]["rankings"], case.get("via_mutation"),
                                            lambda d0: alg.compute_consensus_rankings(d0, first, case["at_most_one"]))}
    check_one(case, ctx, shared)
    if case.get("batched", True):
        for sch in EXTRA_SCHEMES:
            c = dict(case)
            c["scheme"], c["batched"] = sch, False
            c["family"] = "unifying" if sch[0][5] == sch[0][1] and sch[1][0] == sch[0][1] else "other"
            c["at_most_one"] = not case["at_most_one"] if sch is EXTRA_SCHEMES[2] else case["at_most_one"]
            if sch is EXTRA_SCHEMES[-1] or sch is EXTRA_SCHEMES[-2]:
                c["at_most_one"] = False
            check_one(c, ctx, shared)


def check_one(case, ctx, shared=None):
    rankings, scheme, flag = case["dataset"]["rankings"], case["scheme"], case["at_most_one"]
    d, s = (shared["d"] if shared else lib.mk_dataset(rankings)), lib.mk_scheme(scheme)
    alg = shared["alg"] if shared else (get_algorithm(Algorithm.PICKAPERM) if case.get("via_enum") else PickAPerm())
    if not isinstance(alg, PickAPerm):
        raise Violation("get_algorithm(Algorithm.PICKAPERM) returned a %s" % type(alg).__name__)
    inst = oracle.Instance(rankings, scheme)
    univ = inst.elements
    complete = gen.is_complete(rankings)
    unif = proportional(scheme, UNIFYING)
    labels = gen.dataset_labels(case["dataset"]) + ["family:" + case["family"], "unifying:%s" % unif,
                                                     "flag:%s" % flag]
    try:
        with lib.quiet():
            val = alg.compute_consensus_rankings(d, s, flag)
        raised = None
    except Exception as e:  # noqa
        raised = e
    if not complete and not unif:
        ctx.stats.case(case, case["family"] == "near_unifying", labels + ["expect:refusal"])
        if raised is None:
            raise Violation("incomplete dataset with scheme %s (not a multiple of the unifying scheme) was accepted by "
                            "PickAPerm: %s" % (scheme, val))
        if not type(raised).__module__.startswith("corankco"):
            raise Violation("incomplete dataset with a non-unifying scheme: refused with %s (%s), not with a "
                            "corankco exception" % (type(raised).__name__, raised))
        return
    if raised is not None:
        ctx.stats.case(case, False, labels + ["expect:answer"])
        raise Violation("PickAPerm raised %s: %s on a %s dataset with scheme %s" % (
            type(raised).__name__, raised, "complete" if complete else "incomplete", scheme))
    models = well_formed(val, rankings, flag, "PickAPerm")
    cands = [oracle.unify(r, univ) for r in rankings] if not complete else [list(map(list, r)) for r in rankings]
    cset = {oracle.canon(c) for c in cands}
    scores = {c: inst.score([list(b) for b in c]) for c in cset}
    best = min(scores.values())
    minimal = {c for c, v in scores.items() if v == best}
    ctx.stats.case(case, len(cset) >= 3 and len(minimal) >= 2, labels + ["expect:answer",
                                                                          "minimal:%d" % min(len(minimal), 3)])
    for m in models:
        c = oracle.canon(m)
        if c not in cset:
            raise Violation("PickAPerm returned %s which is not one of the (completed) input rankings %s" % (m, cands))
        if scores[c] != best:
            raise Violation("PickAPerm returned %s with score %s but input ranking %s scores %s" % (
                m, scores[c], [sorted(b, key=str) for b in next(iter(minimal))], best))
    if not flag:
        got = {oracle.canon(m) for m in models}
        if got != minimal:
            raise Violation("all best input rankings requested: returned %s, minimal candidates are %s" % (
                models, [[sorted(b, key=str) for b in c] for c in minimal]))


def subchecks():
    return [HypSub("pickaperm", cases, check, 12000, 150000)]
