"""C04 — the Kemeny score a consensus reports is the true score of each returned ranking."""
from hypothesis import strategies as st
from vlib import gen, lib, configs, oracle
from vlib.harness import HypSub
from vlib.lib import Violation
from checks.common_alg import alg_cases, run_case, well_formed, id_order_differs

META = {
    "level": "exploration",
    "engine": "hypothesis",
    "rule": "cases as C03 (every configuration x environment x scheme x dataset x flag), plus two focused families: "
            "algorithms that supply their own score (BioConsert family incl. starters, PuLP, PickAPerm) on incomplete "
            "datasets, and instances whose ILP objective is empty or identically zero (one element; zero-heavy schemes "
            "on disjoint rankings). Oracle: after reading consensus.kemeny_score the value is a real number >= 0, "
            "differs by at most 1e-6 from the exact reference score of EVERY returned ranking, and equals "
            "features[KEMENY_SCORE]. Non-trivial: the algorithm supplied its own score, n>=3 and the consensus order "
            "differs from id order.",
    "assumptions": ["CPLEX paths run against the stand-in solver", "absolute tolerance 1e-6 as in the statement"],
    "budget_s": {"quick": 110, "thorough": 800},
    "floors": {"reported_self_scored/incomplete": 0.3},
}

SELF_SCORED = {"bioconsert", "pickaperm"}
SELF_SCORED_CFG = {"exact_pulp", "exact_default", "exact_noopt", "enum_exact"}


def supplies_score(case):
    cfg = configs.BY_NAME[case["config"]]
    if cfg.family in SELF_SCORED:
        return True
    return case["config"] in SELF_SCORED_CFG and case["env"] == "absent"


def check(case, ctx):
    rankings = case["dataset"]["rankings"]
    scheme = case["scheme"]
    status, val, alg, d, s = run_case(case)
    labels = gen.dataset_labels(case["dataset"]) + ["cfg:" + case["config"], "env:" + case["env"], "status:" + status]
    if status != "ok":
        ctx.stats.case(case, False, labels)
        return
    models = well_formed(val, rankings, case["at_most_one"], case["config"])
    inst = oracle.Instance(rankings, scheme)
    got = lib.must(lambda: val.kemeny_score)
    nt = supplies_score(case) and inst.n >= 3 and id_order_differs(models[0], rankings)
    ctx.stats.case(case, nt, labels + ["nb_returned:%d" % min(len(models), 3)])
    if got is None:
        raise Violation("%s: reported kemeny_score is None" % case["config"])
    try:
        g = float(got)
    except Exception:
        raise Violation("%s: reported kemeny_score %r is not a real number" % (case["config"], got))
    # 'never negative' is read with the statement's own tolerance: float noise of the local-search bookkeeping under
    # decimal penalties (e.g. -4e-16 for a true score of 0) is not the -1 'absent' sentinel nor a wrong score
    if g != g or g < -1e-6:
        raise Violation("%s: reported kemeny_score %r is negative or NaN" % (case["config"], got))
    for m in models:
        want = inst.score(m)
        if abs(g - float(want)) > 1e-6:
            raise Violation("%s: reports kemeny_score %r but returned ranking %s scores %s" % (
                case["config"], got, m, want))
    feat = val.features.get(lib.ConsensusFeature.KEMENY_SCORE)
    if feat is None or abs(float(feat) - g) > 0:
        raise Violation("%s: features[KEMENY_SCORE]=%r differs from kemeny_score=%r" % (case["config"], feat, got))
    desc = lib.must(val.description)
    if not isinstance(desc, str):
        raise Violation("description() is not a string")


SELF_PAIRS = [(c.name, e) for c in configs.CONFIGS for e in c.envs
              if c.family in SELF_SCORED or (c.name in SELF_SCORED_CFG and e == "absent")]


def self_scored_cases(tier):
    return alg_cases(tier, pairs=SELF_PAIRS,
                     shapes=["incomplete", "incomplete", "sparse_block", "near_unanimous_incomplete", "identical",
                             "near_unanimous", "complete"])


RESTRICTED = [(n, "absent") for n in ("pickaperm", "enum_pickaperm", "borda", "borda_bucket", "bioco", "enum_bioco", "bioconsert_borda_pick",
                                       "bioconsert_kwik_cop_borda", "bioconsert", "parcons_bioco_b0",
                                       "parcons_borda_b0")]


def restricted_cases(tier):
    """algorithms that only accept some scheme families on incomplete data, under positive multiples of exactly
    those families (a multiple is 'equivalent' for acceptance, but scores scale with it)"""
    return alg_cases(tier, pairs=RESTRICTED,
                     schemes=gen.preset_multiples(["unifying", "unifying", "unifying_half", "induced", "induced_half"]),
                     shapes=["incomplete", "sparse_block", "near_unanimous_incomplete", "cyclic_incomplete",
                             "block_cyclic", "complete"])


ZERO_HEAVY = [0.0, 0.0, 0.0, 1.0, 0.5]


@st.composite
def zero_objective_cases(draw, tier):
    name, env = draw(st.sampled_from([("exact_pulp", "absent"), ("exact_default", "absent"), ("exact_noopt", "absent"),
                                      ("parcons_default", "absent"), ("cplex_noopt", "standin"),
                                      ("exact_default", "standin")]))
    kind = draw(st.sampled_from(["one_element", "zero_scheme", "induced_disjoint"]))
    if kind == "one_element":
        scheme = draw(gen.dyadic_schemes())
        e = draw(st.sampled_from([0, 7, "a", "x y"]))
        m = draw(st.integers(1, 3))
        rankings = [[[e]] for _ in range(m)] + ([[]] if draw(st.booleans()) else [])
        ds = {"rankings": rankings, "shape": "one_element", "kind": "dense"}
    elif kind == "zero_scheme":
        scheme = draw(gen.free_schemes(ZERO_HEAVY, [1.0, 0.5]))
        ds = draw(gen.datasets(max_n=4, max_m=3, shapes=["sparse_block", "identical", "incomplete"]))
    else:
        scheme = draw(gen.preset_multiples(["induced", "induced_half", "pseudodistance"]))
        # rankings with pairwise disjoint domains
        n = draw(st.integers(2, 5))
        names = list(range(n))
        cut = draw(st.integers(1, n - 1))
        ds = {"rankings": [draw(gen.weak_order_of(names[:cut])), draw(gen.weak_order_of(names[cut:]))],
              "shape": "disjoint", "kind": "dense"}
    return {"config": name, "env": env, "scheme": scheme, "dataset": ds, "at_most_one": True, "rng": 0,
            "zero_kind": kind}


def check_zero(case, ctx):
    check(case, ctx)


# PickAPerm is not in this list: it scores every input ranking against the whole dataset (quadratic in the number of
# rankings, minutes on a 2 000-ballot dataset) - slow, not wrong, and the per-case watchdog must never see it
LARGE_PAIRS = [(n, "absent") for n in ("bioconsert", "bioconsert_copeland", "bioco", "borda", "copeland",
                                        "kwiksort", "bioconsert_kwik_cop_borda")]


@st.composite
def large_alg_cases(draw, tier):
    name, env = draw(st.sampled_from(LARGE_PAIRS))
    scheme = draw(st.one_of(gen.any_schemes(), gen.preset_multiples(["unifying", "unifying", "induced"])))
    return {"config": name, "env": env, "scheme": scheme, "dataset": draw(gen.large_datasets()),
            "at_most_one": draw(st.booleans()), "rng": draw(st.integers(0, 999))}


REUSE_CFGS = ["borda", "borda_bucket", "copeland", "kwiksort", "pickaperm", "bioconsert", "bioco", "bioconsert_copeland",
              "parcons_default", "exact_pulp", "exact_default", "parcons_kwik_b2"]


@st.composite
def reuse_cases(draw, tier):
    """ONE algorithm instance used for several (dataset, scheme) pairs, scores read in a drawn order"""
    name = draw(st.sampled_from(REUSE_CFGS))
    runs = []
    if draw(st.booleans()):
        # the SAME rankings under several multiples of ONE scheme, one run after the other: equal position matrices,
        # equal nicknames, proportional cost tables - only the scale tells the runs apart
        base = draw(st.one_of(gen.preset_multiples(["unifying", "unifying", "induced", "pseudodistance", "extended"]),
                              gen.dyadic_schemes()))
        ds = draw(gen.datasets(max_n=6, max_m=4))
        for k in list(draw(st.permutations([1.0, 0.5, 2.0, 3.0])))[:draw(st.sampled_from([2, 3]))]:
            runs.append({"scheme": gen.scale(base, k), "dataset": ds, "flag": draw(st.booleans()),
                         "read_now": draw(st.booleans())})
        return {"config": name, "runs": runs, "rng": draw(st.integers(0, 999)), "mode": "multiples"}
    for _ in range(draw(st.sampled_from([2, 2, 3]))):
        runs.append({"scheme": draw(st.one_of(gen.preset_multiples(["unifying", "unifying", "induced"]),
                                              gen.any_schemes())),
                     "dataset": draw(gen.datasets(max_n=6, max_m=4)), "flag": draw(st.booleans()),
                     "read_now": draw(st.booleans())})
    return {"config": name, "runs": runs, "rng": draw(st.integers(0, 999))}


def check_reuse(case, ctx):
    import random
    cfg = configs.BY_NAME[case["config"]]
    results = []
    with configs.solver_env("absent"):
        alg = lib.must(cfg.factory)
        for k, r in enumerate(case["runs"]):
            d, s = lib.mk_dataset(r["dataset"]["rankings"]), lib.mk_scheme(r["scheme"])
            random.seed(case["rng"] + k)
            st_, val = lib.call(alg.compute_consensus_rankings, d, s, r["flag"],
                                allowed=configs.REFUSALS + (configs.IncompatibleArgumentsException,))
            if st_ == "ok" and r["read_now"]:
                lib.must(lambda: val.kemeny_score)
            results.append((st_, val, r))
    answered = [x for x in results if x[0] == "ok"]
    ctx.stats.case(case, len(answered) >= 2 and any(x[2]["read_now"] for x in answered[:-1]),
                   ["cfg:" + case["config"], "answered:%d" % len(answered), "mode:" + case.get("mode", "independent")])
    for st_, val, r in answered:
        rankings, scheme = r["dataset"]["rankings"], r["scheme"]
        models = well_formed(val, rankings, r["flag"], case["config"])
        inst = oracle.Instance(rankings, scheme)
        got = lib.must(lambda: val.kemeny_score)
        for m in models:
            want = inst.score(m)
            if got is None or abs(float(got) - float(want)) > 1e-6:
                raise Violation("%s instance reused for %d runs: consensus %s for dataset %s reports kemeny_score %r, "
                                "its score is %s" % (case["config"], len(case["runs"]), m, rankings, got, want))


@st.composite
def direct_cases(draw, tier):
    ds = draw(gen.datasets(max_n=7, max_m=5))
    univ = oracle.universe(ds["rankings"])
    k = draw(st.integers(2, 4))
    return {"scheme": draw(gen.any_schemes()), "dataset": ds, "cands": [draw(gen.candidates(univ)) for _ in range(k)],
            "order": draw(st.permutations(list(range(k)))), "early": draw(st.booleans())}


def check_direct(case, ctx):
    """Consensus objects built directly (no algorithm, no features handed in): the score is computed on demand, for
    each object from ITS rankings, dataset and scheme - several such objects alive at once, read in a drawn order"""
    rankings, scheme, cands = case["dataset"]["rankings"], case["scheme"], case["cands"]
    d, s = lib.mk_dataset(rankings), lib.mk_scheme(scheme)
    inst = oracle.Instance(rankings, scheme)
    want = [inst.score(c) for c in cands]
    ctx.stats.case(case, len(set(want)) >= 2 and inst.n >= 3, gen.dataset_labels(case["dataset"]) + [
        "distinct_scores:%d" % len(set(want))])
    objs = []
    for i, c in enumerate(cands):
        objs.append(lib.must(lib.Consensus, [lib.mk_ranking(c)], d, s))
        if case["early"] and i == 0:
            lib.check_score(lib.must(lambda: objs[0].kemeny_score), want[0], scheme,
                            "kemeny_score of Consensus([%s]) built directly" % cands[0])
    for i in case["order"]:
        lib.check_score(lib.must(lambda: objs[i].kemeny_score), want[i], scheme,
                        "kemeny_score of Consensus([%s]) built directly (object %d of %d, read in order %s)" % (
                            cands[i], i, len(cands), list(case["order"])))


def subchecks():
    return [HypSub("reported_any", alg_cases, check, quick=6000, thorough=100000),
            HypSub("reported_self_scored", self_scored_cases, check, quick=5000, thorough=100000),
            HypSub("accepted_families_scaled", restricted_cases, check, 4000, 60000),
            HypSub("reported_large", large_alg_cases, check, 300, 4000),
            HypSub("instance_reuse", reuse_cases, check_reuse, 4000, 50000),
            HypSub("zero_objective", zero_objective_cases, check_zero, quick=600, thorough=8000),
            HypSub("direct_objects", direct_cases, check_direct, quick=3000, thorough=40000)]
